#!/usr/bin/env python3
"""Generates /verif/MANIFEST.json from the table below (kept in one place so it stays consistent)."""
import json, subprocess, os
V = "/verif"
hooks = subprocess.run(["git", "-C", "/repo", "log", "--format=%h %s"], capture_output=True, text=True).stdout.splitlines()
hook_commits = [l.split()[0] for l in hooks if l.split(" ", 1)[1].startswith("verif-hooks:")]

S_NOTE = ("Trusted base: the seams of DESIGN.md section 4 (virtual clock, lock-step gate before poll, recv/send_to/getifaddrs/"
          "fastrand shims) behave like the real calls at datagram granularity; the daemon is woken exactly when it asked to be; "
          "std HashMap order fixed by the getrandom shim for one seed per run; the independent DNS parser in harness/src/indep.rs.")
W_NOTE = ("Trusted base: the independent RFC 1035 codec in harness/src/indep.rs; the plain-data facade (src/verif_wire.rs) only "
          "converts types; alphabets and bounds as stated in the evidence file.")

CHECKS = {
 "C01": ("W", "exploration", "7 C01", "bounded-exhaustive input enumeration of the real decoder (all strings over a hostile byte alphabet up to a length bound in 6 packet contexts, one-record grammar, pointer graphs, full 1-byte mutation neighbourhood of a corpus, size families) with deterministic fuel, against an independent parser",
         "Every datagram of the enumerated families is decoded by the real DnsIncoming::new under catch_unwind and a loop-tick budget of 64n+1024; no panic, termination within budget, names <= max(n,256) bytes, record provenance against an independent RFC 1035 parser. Exhaustive within the stated alphabets/lengths, which were chosen from every branch the decoder takes on a length/type/pointer byte.", W_NOTE),
 "C02": ("W", "exploration", "7 C02", "bounded-exhaustive enumeration of encoder inputs (all messages of <= k menu entries built to collide in the compression table; every filler size +-400 bytes around the 8972 limit x tails; multiples of the limit), each packet read back by an independent parser and by the crate's decoder",
         "All messages up to k entries from a collision-oriented menu and a dense size sweep across the packet limit are encoded by the real DnsOutgoing; every packet must be <= 8972 bytes, have matching header counts, and read back (independent parser) as exactly / a subsequence of what was added, with TC on non-final packets.", W_NOTE),
 "C06": ("S", "model_checking", "7 C06", "explicit-state exploration of the real daemon in lock-step simulation: every register/re-register/unregister sequence to a depth x interface layouts, and in every such state every single question and every ordered pair of questions from both source-port classes, compared with a reference responder",
         "The reachable responder states (op sequences to depth 2/3 over two services, 3 layouts, with/without a service still probing) are each queried with the full question alphabet (16 names x 7 types, singles from port 5353 and 40000 on every interface/family, all ordered pairs); every response is parsed independently and compared with a reference responder for soundness, completeness, TTLs, flush bits, subnet, unicast/multicast, ID and question echo.", S_NOTE),
 "C07": ("S", "model_checking", "7 C07", "exhaustive enumeration of registration configurations x every probe jitter 0..249 on the real daemon under a virtual clock; probe/announce schedule and packet content checked from the captured wire log",
         "Every jitter value 0..249 (the whole range of the only random choice) x configuration (subtype, IP families, 1-2 interfaces, second service sharing the host at offsets) is executed on the real daemon; three probes 250 ms apart with the proposed records, silence before, two complete announcements 1 s apart, Announce events, bounded time to announce.", S_NOTE),
 "C09": ("S", "model_checking", "7 C09", "breadth-first exploration of all register / re-register / conflict / unregister / idle / shutdown sequences to depth 4-5 on the real daemon (3 interface layouts), states de-duplicated on a canonical dump; goodbye packets compared with what the wire shows was announced",
         "All event sequences to the stated depth are executed on the real daemon; the unregister reply, the goodbye on each interface/family where the wire shows the service was announced (same names, TTL 0, repeated once after ~120 ms), no goodbye elsewhere, and silence afterwards are checked on every history.", S_NOTE),
 "C16": ("W", "exploration", "7 C16", "bounded-exhaustive enumeration of TXT property lists (<= 3-4 entries over boundary keys/values) through every input type and of all byte strings up to length 8-9 over 7 bytes into the decoder; end-to-end subset through two simulated daemons",
         "Every list up to 3 (quick) / 4 (thorough) entries over keys/values at the 0/1/254/255/256 boundaries, through 5 input types: refusal exactly when unrepresentable, otherwise wire strings <= 255 bytes and equal round trip (order, case, none-vs-empty, first duplicate wins); every byte string up to length 8/9 over a 7-byte alphabet decodes without panic to properties that are in the record; all short entries and pairs registered on daemon A arrive equal at a browsing daemon B.", W_NOTE),
}
NOT_YET = {}
ALL = ["C%02d" % i for i in range(1, 21)]
checks = []
for pid in ALL:
    if pid not in CHECKS: continue
    eng, level, ref, tech, text, note = CHECKS[pid]
    checks.append({
        "property_id": pid,
        "quick_cmd": f"./check {pid} quick",
        "thorough_cmd": f"./check {pid} thorough",
        "evidence_file": f"/verif/evidence/{pid}.json",
        "replay_cmd_template": "./check replay {path}",
        "engine": {"W": "wire-enumerator", "L": "component-enumerator", "S": "simulation-explorer", "L+S": "component-enumerator + simulation-explorer", "W+S": "wire-enumerator + simulation-explorer"}[eng],
        "level_claimed": {"category": level, "text": text, "design_ref": f"DESIGN.md section {ref}"},
        "level_note": note,
        "technique": tech,
    })
na = [{"property_id": p, "reason": NOT_YET.get(p, "check not built yet in this round of work (engine S/L scenario pending); no verdict is claimed")} for p in ALL if p not in CHECKS]
m = {
  "version": 1,
  "setup_cmd": "./check setup",
  "hooks": {
    "guard": "verif-hooks",
    "enable": "cargo feature: the harness crate /verif/harness depends on /repo by path with features = [\"verif-hooks\"]; ./check rebuilds it from /repo's working tree before every run",
    "baseline_off_cmd": "cd /repo && cargo test --workspace --no-fail-fast --offline",
    "source_commits": hook_commits,
    "add_only": True,
  },
  "engines": [
    {"name": "wire-enumerator", "path": "/verif/harness/src (c01.rs c02.rs c16.rs indep.rs)", "serves_properties": [p for p in CHECKS if CHECKS[p][0] in ("W", "W+S")], "kind_free_text": "bounded-exhaustive enumeration of codec inputs on the real encoder/decoder, independent RFC 1035 parser as oracle"},
    {"name": "component-enumerator", "path": "/verif/harness/src", "serves_properties": [p for p in CHECKS if "L" in CHECKS[p][0]], "kind_free_text": "bounded-exhaustive enumeration of inputs to the real lifetime / known-answer / tiebreak functions under a thread-local virtual clock"},
    {"name": "simulation-explorer", "path": "/verif/harness/src (sim.rs fw.rs scn.rs c*.rs)", "serves_properties": [p for p in CHECKS if "S" in CHECKS[p][0]], "kind_free_text": "explicit-state / bounded-exhaustive exploration of event sequences on the real daemon thread, run in lock-step under a virtual clock with simulated interfaces and captured sockets; BFS with canonical state digests and re-execution"},
  ],
  "checks": checks,
  "not_applicable": na,
  "notes": "Exit codes: 0 held (KNOWN-FINDING lines allowed), 1 VIOLATION, 2 machinery error (never a verdict). VERIF_SEED selects the std HashMap seed (the only sampled dimension). Known findings and fixed defects: /verif/known_findings.txt. ./check replay <file> re-runs a recorded case with a trace.",
}
json.dump(m, open(f"{V}/MANIFEST.json", "w"), indent=1)
print("checks:", [c["property_id"] for c in checks], "na:", [n["property_id"] for n in na])
