#!/usr/bin/env python3
"""Generates /verif/MANIFEST.json from the table below (kept in one place so it stays consistent)."""
import json, subprocess, os
V = "/verif"
hooks = subprocess.run(["git", "-C", "/repo", "log", "--format=%h %s"], capture_output=True, text=True).stdout.splitlines()
hook_commits = [l.split()[0] for l in hooks if l.split(" ", 1)[1].startswith("verif-hooks:")]

S_NOTE = ("Trusted base: the seams of DESIGN.md section 4 (virtual clock, lock-step gate before poll, recv/send_to/getifaddrs/"
          "fastrand shims) behave like the real calls at datagram granularity; the daemon is woken exactly when it asked to be; "
          "std HashMap order fixed by the getrandom shim for one seed per run; the independent DNS parser in harness/src/indep.rs.")
W_NOTE = ("Trusted base: the independent RFC 1035 codec in harness/src/indep.rs; the plain-data facade (src/verif_wire.rs) only "
          "converts types; alphabets and bounds as stated in the evidence file.")

CHECKS = {
 "C01": ("W", "exploration", "7 C01", "bounded-exhaustive input enumeration of the real decoder (all strings over a hostile byte alphabet up to a length bound in 6 packet contexts, one-record grammar, pointer graphs, full 1-byte mutation neighbourhood of a corpus, size families) with deterministic fuel, against an independent parser",
         "Every datagram of the enumerated families is decoded by the real DnsIncoming::new under catch_unwind and a loop-tick budget of 64n+1024; no panic, termination within budget, names <= max(n,256) bytes, record provenance against an independent RFC 1035 parser. Exhaustive within the stated alphabets/lengths, which were chosen from every branch the decoder takes on a length/type/pointer byte.", W_NOTE),
 "C02": ("W", "exploration", "7 C02", "bounded-exhaustive enumeration of encoder inputs (all messages of <= k menu entries built to collide in the compression table; every filler size +-400 bytes around the 8972 limit x tails; multiples of the limit), each packet read back by an independent parser and by the crate's decoder",
         "All messages up to k entries from a collision-oriented menu and a dense size sweep across the packet limit are encoded by the real DnsOutgoing; every packet must be <= 8972 bytes, have matching header counts, and read back (independent parser) as exactly / a subsequence of what was added, with TC on non-final packets.", W_NOTE),
 "C06": ("S", "model_checking", "7 C06", "explicit-state exploration of the real daemon in lock-step simulation: every register/re-register/unregister sequence to a depth x interface layouts, and in every such state every single question and every ordered pair of questions from both source-port classes, compared with a reference responder",
         "The reachable responder states (op sequences to depth 2/3 over two services, 3 layouts, with/without a service still probing) are each queried with the full question alphabet (16 names x 7 types, singles from port 5353 and 40000 on every interface/family, all ordered pairs); every response is parsed independently and compared with a reference responder for soundness, completeness, TTLs, flush bits, subnet, unicast/multicast, ID and question echo.", S_NOTE),
 "C07": ("S", "model_checking", "7 C07", "exhaustive enumeration of registration configurations x every probe jitter 0..249 on the real daemon under a virtual clock; probe/announce schedule and packet content checked from the captured wire log",
         "Every jitter value 0..249 (the whole range of the only random choice) x configuration (subtype, IP families, 1-2 interfaces, second service sharing the host at offsets) is executed on the real daemon; three probes 250 ms apart with the proposed records, silence before, two complete announcements 1 s apart, Announce events, bounded time to announce.", S_NOTE),
 "C09": ("S", "model_checking", "7 C09", "breadth-first exploration of all register / re-register / conflict / unregister / idle / shutdown sequences to depth 4-5 on the real daemon (3 interface layouts), states de-duplicated on a canonical dump; goodbye packets compared with what the wire shows was announced",
         "All event sequences to the stated depth are executed on the real daemon; the unregister reply, the goodbye on each interface/family where the wire shows the service was announced (same names, TTL 0, repeated once after ~120 ms), no goodbye elsewhere, and silence afterwards are checked on every history.", S_NOTE),
 "C03": ("S", "model_checking", "7 C03", "breadth-first exploration of all response-packet / time sequences to depth 4-5 from an 18-event responder menu on the real browsing daemon (lock-step, virtual clock), states de-duplicated on a canonical dump; every ServiceResolved compared with a reference record store",
         "All histories to the stated depth over announcements of two instances sharing a host (TTL 2/10/120), updates (new port/TXT/address with cache-flush), extra address, address on a second interface, goodbyes, PTR-only, verify and idles; every field of every ServiceResolved must come from a record that the reference store (TTL, goodbye, cache-flush >1 s rule) says is live at the event time, tagged with an interface a live copy arrived on.", S_NOTE),
 "C04": ("S", "model_checking", "7 C04", "exhaustive enumeration of all 75 ordered set-partitions of an instance's record set into packets x placement x duplication x foreign material x gap x name shape x type/subtype browse; all single losses answered by a scripted label-exact responder; plus breadth-first exploration of the shared browse menu with a completeness oracle",
         "Every ordered set-partition of {PTR,SRV,TXT,A} into packets with the listed variations (64,800 histories) must end with ServiceFound then ServiceResolved with the right content within the delivering step; after any single lost packet the daemon's own follow-up queries (names, timing) are answered by an independent responder and must lead to resolution; BFS histories check 'complete by the reference store implies reported in this step'.", S_NOTE),
 "C05": ("S", "model_checking", "7 C05", "breadth-first exploration of announcement / goodbye / update / verify / silence histories to depth 4-5 on the real browsing daemon; every ServiceRemoved and every lapse of completeness compared with the reference record store",
         "Same event menu as C03 with a removal oracle: a ServiceRemoved is never sent while PTR, SRV and an address all have more than 1 s left by the reference store; whenever a reported instance loses its last live PTR / SRV / address (TTL, goodbye+1 s, cache-flush+1 s, verify deadline) a ServiceRemoved is on the channel at that moment (1 s early tolerated); no ServiceResolved after a removal without new records.", S_NOTE),
 "C08": ("L+S", "model_checking", "7 C08", "bounded-exhaustive enumeration of all ordered pairs of small record sets through the real Probe::tiebreaking (both directions, sorted and reversed wire order) and of rename inputs; exhaustive grid of start offsets x jitters for two real daemons on a simulated link, three daemons, and scripted conflicts at every probe step",
         "Antisymmetry and RFC order of the tiebreak on all pairs of sets of <= 2/3 records from a 12-record menu; rename functions on boundary names; two daemons with the same names at every offset 0..3000 ms (50/10 ms grid) x 9 jitter pairs must end with exactly one holder of the original names, all announced, consistent names in every later packet (answers to every question type, goodbye); scripted conflicts after each probe for 5 name shapes.", S_NOTE),
 "C10": ("L+S", "model_checking", "7 C10", "exhaustive enumeration of (record type x responder TTL x known-answer TTL x same/different owner, class, RDATA x flush bit) through the real suppressed_by_answer; on a live daemon every question x every assignment of {absent, 7 TTLs} to 4 records as known answers; every query sent over a cached record's life for every TTL in a range",
         "Predicate level: 2240 combinations around the half-TTL boundary. Responder: 7 questions x 4096 known-answer assignments x flush-bit convention x layout on one live announced service: absent iff a listed copy has TTL above half, present otherwise, a suppressed PTR sends nothing. Querier: for every TTL 2..20 (40) all queries over the record's life list only shared records younger than half life with the remaining TTL, on every interface.", S_NOTE),
 "C11": ("L+S", "model_checking", "7 C11", "exhaustive enumeration of every TTL 1..600 (20000) x every ordered subset of <= 3 boundary instants x fresh-copy position through the real DnsRecord lifetime functions under a thread clock; daemon-level enumeration of TTL x answered-marks patterns and of cache-flush gap/bit/interface combinations",
         "Component: is_expired / halflife / refresh_maybe on every TTL up to the bound (plus 2^16, 2^24, 2^31-1, 2^32-1) for every observation sequence over the marks: never expired early, at most one refresh per mark, none at/after expiry, a newly passed mark fires, a fresh copy restarts. Daemon: refresh questions exactly at unanswered marks, removal at TTL, displaced addresses removed exactly 1 s after a flush that is > 1 s younger, on the same interface only.", S_NOTE),
 "C12": ("S", "model_checking", "7 C12", "exhaustive enumeration of all event sequences to depth 2-3 over 23 API calls / packets / interface changes / idles on the real daemon, each executed twice - self-timed and woken every virtual millisecond - and compared (differential oracle), plus spin counters",
         "Every history is run self-timed (woken only when the daemon asked) and densely (every ms); since the loop re-tests all time conditions each iteration, equal observable logs mean every piece of time-driven work had a wake-up no later than its due time. Spin: never more than 3 quiet iterations asking for <= now+1 ms, at most 20 iterations per silent second.", S_NOTE),
 "C13": ("S", "model_checking", "7 C13", "breadth-first exploration of all browse / browse again / browse_cache / stop / resolve_hostname (timeouts, letter cases) / stop / shutdown / packet / idle sequences to depth 4-5, followed by 2 h of silent virtual time; channel automata and wire checked on every history",
         "Per receiver: first event SearchStarted, Found before Resolved, exactly one SearchStopped at stop / timeout (after SearchTimeout) / shutdown and nothing after; no PTR question for a stopped type and no A/AAAA question for a stopped host name for 2 virtual hours; cache counters zero right after stop_browse; a cache-only browse never causes a query.", S_NOTE),
 "C14": ("S", "model_checking", "7 C14", "exhaustive enumeration of the position of shutdown among 1-2 (3) commands of every kind x every split of the queue into loop iterations x one further call in each of four exit-path windows (park points), on the real daemon and real channels; undrained-channel deviation explored separately",
         "For every command kind (16), every position of shutdown, every batching and every exit window with calls from a second handle clone: the shutdown caller gets Shutdown, clean-up effects (goodbye, SearchStopped) happen exactly once, after the end every call fails with DaemonShutdown and status() is Shutdown, and every reply receiver ever handed out holds a value or is closed; the blocking get_ip_check_interval returns.", S_NOTE + " Client calls are treated as atomic with respect to the gate/exit park points (argument in DESIGN.md C14)."),
 "C15": ("W+S", "exploration", "7 C15", "bounded-exhaustive enumeration of a boundary-string grammar x every public function taking a name, extreme numeric arguments, and hostile label shapes x every name position in packets, each followed by deferred work in virtual time and a liveness probe of the real daemon",
         "3472 (function, string) cases from 51 base strings x suffix variants, 13 numeric extremes, 104 (hostile label shape, name position) packets: no panic in the caller (catch_unwind), the daemon thread has not ended, status() is Running and a fresh browse still resolves an announcement.", S_NOTE),
 "C17": ("S", "model_checking", "7 C17", "breadth-first exploration of all resolve_hostname / stop / address-record / goodbye / flush / idle sequences to depth 4-5 on the real daemon (2 interfaces), the client's view compared with a reference store after every step",
         "After every step and every second of a 13 s horizon the set (name spelling, address, interface) folded from AddressesFound/AddressesRemoved equals the live records of the reference store (TTL, goodbye, cache-flush rule, per interface); A and AAAA asked at once; SearchTimeout then SearchStopped exactly at start+timeout; no question for the name while no search is open.", S_NOTE),
 "C18": ("S", "model_checking", "7 C18", "exhaustive enumeration of all enable/disable selection sequences to depth 3-4 over 10 selection kinds on a 3-interface + loopback topology (plus an interface appearing later), of service address sets against subnets, and of interface removal / disabling events, on the real daemon",
         "The interfaces and IP families a browse uses equal the selections folded in call order (last match wins), also for an interface that appears later; every packet naming a service leaves only on interfaces sharing a subnet with it and carries only in-subnet addresses; after an interface disappears instances learned only there are removed, others re-resolved without the lost address, IpAdd/IpDel match the change.", S_NOTE),
 "C19": ("S", "model_checking", "7 C19", "exhaustive enumeration of all (operation, offset) sequences to depth 2-3 over 10 search operations x 4 offsets on the real daemon, each observed for 3 virtual days; query times per question compared with the closed-form schedule",
         "Per question (two types, one host name): observed query times minus the schedule start+{0,1,3,7,...} with steps capped at 3600 s minus the exempt refreshes the harness can name must be empty, and no scheduled query may be missing, over 3 days of virtual time.", S_NOTE),
 "C20": ("S", "model_checking", "7 C20", "exhaustive enumeration of all sequences to depth 2-3 over 8 traffic generators and 9 API calls on the real daemon, observed through get_metrics before/after each generator, after the longest TTL and one virtual hour later",
         "No cached record while nothing asked for it, growth bounded by need while searching, every cached-* counter zero and at most one timer after all TTLs and one more hour, timers not growing with repeated identical traffic; three design-level findings are recorded as known.", S_NOTE),
 "C16": ("W", "exploration", "7 C16", "bounded-exhaustive enumeration of TXT property lists (<= 3-4 entries over boundary keys/values) through every input type and of all byte strings up to length 8-9 over 7 bytes into the decoder; end-to-end subset through two simulated daemons",
         "Every list up to 3 (quick) / 4 (thorough) entries over keys/values at the 0/1/254/255/256 boundaries, through 5 input types: refusal exactly when unrepresentable, otherwise wire strings <= 255 bytes and equal round trip (order, case, none-vs-empty, first duplicate wins); every byte string up to length 8/9 over a 7-byte alphabet decodes without panic to properties that are in the record; all short entries and pairs registered on daemon A arrive equal at a browsing daemon B.", W_NOTE),
}
NOT_YET = {}
ALL = ["C%02d" % i for i in range(1, 21)]
checks = []
for pid in ALL:
    if pid not in CHECKS: continue
    eng, level, ref, tech, text, note = CHECKS[pid]
    checks.append({
        "property_id": pid,
        "quick_cmd": f"./check {pid} quick",
        "thorough_cmd": f"./check {pid} thorough",
        "evidence_file": f"/verif/evidence/{pid}.json",
        "replay_cmd_template": "./check replay {path}",
        "engine": {"W": "wire-enumerator", "L": "component-enumerator", "S": "simulation-explorer", "L+S": "component-enumerator + simulation-explorer", "W+S": "wire-enumerator + simulation-explorer"}[eng],
        "level_claimed": {"category": level, "text": text, "design_ref": f"DESIGN.md section {ref}"},
        "level_note": note,
        "technique": tech,
    })
na = [{"property_id": p, "reason": NOT_YET.get(p, "check not built yet in this round of work (engine S/L scenario pending); no verdict is claimed")} for p in ALL if p not in CHECKS]
m = {
  "version": 1,
  "setup_cmd": "./check setup",
  "hooks": {
    "guard": "verif-hooks",
    "enable": "cargo feature: the harness crate /verif/harness depends on /repo by path with features = [\"verif-hooks\"]; ./check rebuilds it from /repo's working tree before every run",
    "baseline_off_cmd": "cd /repo && cargo test --workspace --no-fail-fast --offline",
    "source_commits": hook_commits,
    "add_only": True,
  },
  "engines": [
    {"name": "wire-enumerator", "path": "/verif/harness/src (c01.rs c02.rs c16.rs indep.rs)", "serves_properties": [p for p in CHECKS if CHECKS[p][0] in ("W", "W+S")], "kind_free_text": "bounded-exhaustive enumeration of codec inputs on the real encoder/decoder, independent RFC 1035 parser as oracle"},
    {"name": "component-enumerator", "path": "/verif/harness/src", "serves_properties": [p for p in CHECKS if "L" in CHECKS[p][0]], "kind_free_text": "bounded-exhaustive enumeration of inputs to the real lifetime / known-answer / tiebreak functions under a thread-local virtual clock"},
    {"name": "simulation-explorer", "path": "/verif/harness/src (sim.rs fw.rs scn.rs c*.rs)", "serves_properties": [p for p in CHECKS if "S" in CHECKS[p][0]], "kind_free_text": "explicit-state / bounded-exhaustive exploration of event sequences on the real daemon thread, run in lock-step under a virtual clock with simulated interfaces and captured sockets; BFS with canonical state digests and re-execution"},
  ],
  "checks": checks,
  "not_applicable": na,
  "notes": "Exit codes: 0 held (KNOWN-FINDING lines allowed), 1 VIOLATION, 2 machinery error (never a verdict). VERIF_SEED selects the std HashMap seed (the only sampled dimension). Known findings and fixed defects: /verif/known_findings.txt. ./check replay <file> re-runs a recorded case with a trace.",
}
json.dump(m, open(f"{V}/MANIFEST.json", "w"), indent=1)
print("checks:", [c["property_id"] for c in checks], "na:", [n["property_id"] for n in na])
