//! Lock-step simulation world: one or several real daemons, a virtual clock, simulated links.
use crate::indep::{self, Msg};
use mdns_sd::verif::{InPkt, OutPkt, ParkInfo, Phase, SimCtl, SimIntf};
use mdns_sd::{
    DaemonEvent, HostnameResolutionEvent, Receiver, ScopedIp, ServiceDaemon, ServiceEvent,
};
use std::net::{IpAddr, SocketAddr};
use std::sync::Arc;
use std::time::{Duration, Instant};

/// Virtual epoch (ms). Large enough that no subtraction in the crate underflows.
pub const T0: u64 = 1_700_000_000_000;
/// Real-time limit for one daemon iteration before it is considered hung.
pub const HANG: Duration = Duration::from_secs(10);

#[derive(Clone, Debug, PartialEq, Eq, Hash, PartialOrd, Ord)]
pub struct Addr {
    pub ip: IpAddr,
    /// (interface name, index) the address is tagged with, sorted.
    pub intfs: Vec<(String, u32)>,
}

impl Addr {
    pub fn from_scoped(s: &ScopedIp) -> Addr {
        match s {
            ScopedIp::V4(v4) => {
                let mut intfs: Vec<_> = v4
                    .interface_ids()
                    .iter()
                    .map(|i| (i.name.clone(), i.index))
                    .collect();
                intfs.sort();
                Addr {
                    ip: IpAddr::V4(*v4.addr()),
                    intfs,
                }
            }
            ScopedIp::V6(v6) => Addr {
                ip: IpAddr::V6(*v6.addr()),
                intfs: vec![(v6.scope_id().name.clone(), v6.scope_id().index)],
            },
            _ => Addr {
                ip: s.to_ip_addr(),
                intfs: vec![],
            },
        }
    }
}

fn addrs_of<'a>(it: impl Iterator<Item = &'a ScopedIp>) -> Vec<Addr> {
    let mut v: Vec<Addr> = it.map(Addr::from_scoped).collect();
    v.sort();
    v
}

#[derive(Clone, Debug, PartialEq, Eq, Hash)]
pub struct Resolved {
    pub ty: String,
    pub sub: Option<String>,
    pub fullname: String,
    pub host: String,
    pub port: u16,
    pub addrs: Vec<Addr>,
    pub txt: Vec<(String, Option<Vec<u8>>)>,
}

#[derive(Clone, Debug, PartialEq, Eq, Hash)]
pub enum BEv {
    Started(String),
    Found(String, String),
    Resolved(Resolved),
    Removed(String, String),
    Stopped(String),
    Other(String),
}

#[derive(Clone, Debug, PartialEq, Eq, Hash)]
pub enum HEv {
    Started(String),
    Found(String, Vec<Addr>),
    Removed(String, Vec<Addr>),
    Timeout(String),
    Stopped(String),
    Other(String),
}

#[derive(Clone, Debug, PartialEq, Eq, Hash)]
pub enum MEv {
    Announce(String, String),
    Error(String),
    IpAdd(IpAddr),
    IpDel(IpAddr),
    NameChange {
        original: String,
        new_name: String,
        rr_type: u16,
        intf: String,
    },
    Respond(String),
    Other(String),
}

pub fn bev(e: ServiceEvent) -> BEv {
    match e {
        ServiceEvent::SearchStarted(s) => BEv::Started(s),
        ServiceEvent::ServiceFound(a, b) => BEv::Found(a, b),
        ServiceEvent::ServiceResolved(r) => BEv::Resolved(Resolved {
            ty: r.ty_domain.clone(),
            sub: r.sub_ty_domain.clone(),
            fullname: r.fullname.clone(),
            host: r.host.clone(),
            port: r.port,
            addrs: addrs_of(r.addresses.iter()),
            txt: r
                .txt_properties
                .iter()
                .map(|p| (p.key().to_string(), p.val().map(|v| v.to_vec())))
                .collect(),
        }),
        ServiceEvent::ServiceRemoved(a, b) => BEv::Removed(a, b),
        ServiceEvent::SearchStopped(s) => BEv::Stopped(s),
        other => BEv::Other(format!("{other:?}")),
    }
}

pub fn hev(e: HostnameResolutionEvent) -> HEv {
    match e {
        HostnameResolutionEvent::SearchStarted(s) => HEv::Started(s),
        HostnameResolutionEvent::AddressesFound(n, s) => HEv::Found(n, addrs_of(s.iter())),
        HostnameResolutionEvent::AddressesRemoved(n, s) => HEv::Removed(n, addrs_of(s.iter())),
        HostnameResolutionEvent::SearchTimeout(s) => HEv::Timeout(s),
        HostnameResolutionEvent::SearchStopped(s) => HEv::Stopped(s),
        #[allow(unreachable_patterns)]
        other => HEv::Other(format!("{other:?}")),
    }
}

pub fn mev(e: DaemonEvent) -> MEv {
    match e {
        DaemonEvent::Announce(a, b) => MEv::Announce(a, b),
        DaemonEvent::Error(e) => MEv::Error(e.to_string()),
        DaemonEvent::IpAdd(ip) => MEv::IpAdd(ip),
        DaemonEvent::IpDel(ip) => MEv::IpDel(ip),
        DaemonEvent::NameChange(c) => MEv::NameChange {
            original: c.original,
            new_name: c.new_name,
            rr_type: c.rr_type as u16,
            intf: c.intf_name,
        },
        DaemonEvent::Respond(s) => MEv::Respond(s),
        other => MEv::Other(format!("{other:?}")),
    }
}

/// A packet the daemon sent, with the independent parse of it.
#[derive(Clone, Debug)]
pub struct Out {
    pub if_index: Option<u32>,
    pub if_name: String,
    pub src: Option<IpAddr>,
    pub dst: SocketAddr,
    pub data: Vec<u8>,
    pub msg: Result<Msg, String>,
}

impl Out {
    pub fn is_multicast(&self) -> bool {
        self.dst.ip().is_multicast()
    }
    pub fn v4(&self) -> bool {
        self.dst.is_ipv4()
    }
}

#[derive(Clone, Debug)]
pub enum Kind {
    Out(Out),
    B(usize, BEv),
    H(usize, HEv),
    M(usize, MEv),
    /// A receiver became disconnected (after yielding everything it held).
    Closed(char, usize),
}

#[derive(Clone, Debug)]
pub struct Ev {
    pub t: u64,
    pub d: usize,
    pub kind: Kind,
}

impl Ev {
    /// Canonical one-line text (relative time), used for outcome hashing and traces.
    pub fn line(&self) -> String {
        let k = match &self.kind {
            Kind::Out(o) => format!(
                "OUT if={:?} dst={} {}",
                o.if_index,
                o.dst,
                match &o.msg {
                    Ok(m) => m.summary(),
                    Err(e) => format!("UNPARSEABLE({e}) {}", indep::hex(&o.data)),
                }
            ),
            Kind::B(c, e) => format!("B{c} {e:?}"),
            Kind::H(c, e) => format!("H{c} {e:?}"),
            Kind::M(c, e) => format!("M{c} {e:?}"),
            Kind::Closed(k, c) => format!("CLOSED {k}{c}"),
        };
        format!("t+{} d{} {}", self.t - T0, self.d, k)
    }
}

#[derive(Clone, Debug, PartialEq, Eq)]
pub enum StepOut {
    Parked,
    Exited { panicked: bool },
    Hung,
    Dead,
}

pub struct Daemon {
    pub ctl: Arc<SimCtl>,
    pub h: ServiceDaemon,
    pub next_wake: Option<u64>,
    pub iters: u64,
    pub park: ParkInfo,
    pub browse: Vec<Receiver<ServiceEvent>>,
    pub host: Vec<Receiver<HostnameResolutionEvent>>,
    pub mon: Vec<Receiver<DaemonEvent>>,
    closed_b: Vec<bool>,
    closed_h: Vec<bool>,
    closed_m: Vec<bool>,
    /// Channels listed here are NOT drained (undrained-channel deviation).
    pub hold_b: Vec<usize>,
    /// hostname-resolution channels the client is not reading at the moment
    pub hold_h: Vec<usize>,
    pub state: StepOut,
    pub needs_step: bool,
    /// Iterations that produced no observable output, asked for wake-up <= now+1 (spin guard).
    pub spin_run: u32,
    pub max_spin_run: u32,
}

pub struct World {
    pub now: u64,
    pub ds: Vec<Daemon>,
    pub log: Vec<Ev>,
    /// Each link is a set of (daemon, if_index) endpoints that hear each other's multicasts.
    pub links: Vec<Vec<(usize, u32)>>,
    /// IP_MULTICAST_LOOP (the crate's default: on): a daemon also receives its own multicasts on
    /// the interface they left on.  Off unless a check turns it on (or VERIF_LOOPBACK=1).
    pub loopback: bool,
    pub trace: bool,
    pub steps: u64,
    pub hang: Duration,
    /// A slow but live client: channels on hold are read again as soon as the daemon has not come back
    /// for 400 ms of real time, i.e. is blocked sending on one of them.
    pub release_when_blocked: bool,
    /// Set when more than 20 000 iterations were needed to settle one instant: packets keep
    /// causing packets without virtual time passing (description with the last log lines).
    pub storm: Option<String>,
    /// IPv4 multicasts that left on another interface than the caller meant (shared-socket selection)
    pub misrouted: u64,
}

pub fn v4(name: &str, index: u32, ip: &str, prefix: u8) -> SimIntf {
    SimIntf {
        name: name.into(),
        index,
        ip: ip.parse().unwrap(),
        prefix,
        up: true,
        p2p: false,
    }
}
pub fn v6(name: &str, index: u32, ip: &str, prefix: u8) -> SimIntf {
    v4(name, index, ip, prefix)
}

impl Default for World {
    fn default() -> Self {
        Self::new()
    }
}

impl World {
    pub fn new() -> World {
        World {
            now: T0,
            ds: Vec::new(),
            log: Vec::new(),
            links: Vec::new(),
            loopback: std::env::var("VERIF_LOOPBACK").is_ok_and(|v| v == "1"),
            storm: None,
            misrouted: 0,
            release_when_blocked: false,
            trace: std::env::var("VERIF_TRACE").is_ok(),
            steps: 0,
            hang: HANG,
        }
    }

    /// Creates a daemon on the given simulated interfaces and waits for its first park.
    pub fn add_daemon(&mut self, intfs: Vec<SimIntf>) -> usize {
        let ctl = SimCtl::new(self.now, intfs);
        let h = ServiceDaemon::new_sim(ctl.clone()).expect("new_sim");
        let st = match ctl.wait_parked(self.hang) {
            Ok(Phase::Parked) => StepOut::Parked,
            Ok(Phase::Exited { panicked }) => StepOut::Exited { panicked },
            _ => StepOut::Hung,
        };
        let park = ctl.park_info();
        let next_wake = park.timeout_ms.map(|ms| park.parked_at + ms);
        self.ds.push(Daemon {
            ctl,
            h,
            next_wake,
            iters: 0,
            park,
            browse: vec![],
            host: vec![],
            mon: vec![],
            closed_b: vec![],
            closed_h: vec![],
            closed_m: vec![],
            hold_b: vec![],
            hold_h: vec![],
            state: st,
            needs_step: false,
            spin_run: 0,
            max_spin_run: 0,
        });
        self.ds.len() - 1
    }

    pub fn one(intfs: Vec<SimIntf>) -> World {
        let mut w = World::new();
        w.add_daemon(intfs);
        w
    }

    pub fn add_browse(&mut self, d: usize, rx: Receiver<ServiceEvent>) -> usize {
        self.ds[d].browse.push(rx);
        self.ds[d].closed_b.push(false);
        self.ds[d].browse.len() - 1
    }
    pub fn add_host(&mut self, d: usize, rx: Receiver<HostnameResolutionEvent>) -> usize {
        self.ds[d].host.push(rx);
        self.ds[d].closed_h.push(false);
        self.ds[d].host.len() - 1
    }
    pub fn add_mon(&mut self, d: usize, rx: Receiver<DaemonEvent>) -> usize {
        self.ds[d].mon.push(rx);
        self.ds[d].closed_m.push(false);
        self.ds[d].mon.len() - 1
    }

    /// The client drops its receiver of browse channel `ch`.
    pub fn drop_browse(&mut self, d: usize, ch: usize) {
        let (s, r) = flume::bounded(1);
        drop(s);
        self.ds[d].browse[ch] = r;
        self.ds[d].closed_b[ch] = true;
    }
    pub fn drop_host(&mut self, d: usize, ch: usize) {
        let (s, r) = flume::bounded(1);
        drop(s);
        self.ds[d].host[ch] = r;
        self.ds[d].closed_h[ch] = true;
    }

    /// get_metrics through the public API (one extra iteration).
    pub fn metrics(&mut self, d: usize) -> Option<std::collections::HashMap<String, i64>> {
        let rx = self.ds[d].h.get_metrics().ok()?;
        self.poke(d);
        rx.try_recv().ok()
    }

    fn push(&mut self, d: usize, kind: Kind) {
        let e = Ev {
            t: self.now,
            d,
            kind,
        };
        if self.trace {
            println!("    {}", e.line());
        }
        self.log.push(e);
    }

    /// Drains every event channel of daemon `d` (except held ones) into the log.
    /// Returns the number of items moved.
    pub fn drain(&mut self, d: usize) -> usize {
        let mut got: Vec<Kind> = Vec::new();
        {
            let dm = &mut self.ds[d];
            for (i, rx) in dm.browse.iter().enumerate() {
                if dm.hold_b.contains(&i) {
                    continue;
                }
                loop {
                    match rx.try_recv() {
                        Ok(e) => got.push(Kind::B(i, bev(e))),
                        Err(flume::TryRecvError::Empty) => break,
                        Err(flume::TryRecvError::Disconnected) => {
                            if !dm.closed_b[i] {
                                dm.closed_b[i] = true;
                                got.push(Kind::Closed('B', i));
                            }
                            break;
                        }
                    }
                }
            }
            for (i, rx) in dm.host.iter().enumerate() {
                if dm.hold_h.contains(&i) {
                    continue;
                }
                loop {
                    match rx.try_recv() {
                        Ok(e) => got.push(Kind::H(i, hev(e))),
                        Err(flume::TryRecvError::Empty) => break,
                        Err(flume::TryRecvError::Disconnected) => {
                            if !dm.closed_h[i] {
                                dm.closed_h[i] = true;
                                got.push(Kind::Closed('H', i));
                            }
                            break;
                        }
                    }
                }
            }
            for (i, rx) in dm.mon.iter().enumerate() {
                loop {
                    match rx.try_recv() {
                        Ok(e) => got.push(Kind::M(i, mev(e))),
                        Err(flume::TryRecvError::Empty) => break,
                        Err(flume::TryRecvError::Disconnected) => {
                            if !dm.closed_m[i] {
                                dm.closed_m[i] = true;
                                got.push(Kind::Closed('M', i));
                            }
                            break;
                        }
                    }
                }
            }
        }
        let n = got.len();
        for k in got {
            self.push(d, k);
        }
        n
    }

    fn collect_egress(&mut self, d: usize) -> Vec<OutPkt> {
        let mut pk = self.ds[d].ctl.take_egress();
        // An IPv4 multicast leaves on the interface selected on the shared socket
        // (IP_MULTICAST_IF as last set), whatever interface the caller had in mind.
        for p in pk.iter_mut() {
            if let (true, Some(sel)) = (p.dst.is_ipv4() && p.dst.ip().is_multicast(), p.mcast_if_v4) {
                if p.src_ip != Some(IpAddr::V4(sel)) {
                    let table = self.ds[d].ctl.get_intfs();
                    if let Some(eff) = table.iter().find(|i| i.ip == IpAddr::V4(sel)) {
                        self.misrouted += 1;
                        p.if_index = Some(eff.index);
                        p.if_name = eff.name.clone();
                        p.src_ip = Some(eff.ip);
                    }
                }
            }
        }
        for p in pk.iter() {
            let out = Out {
                if_index: p.if_index,
                if_name: p.if_name.clone(),
                src: p.src_ip,
                dst: p.dst,
                data: p.data.clone(),
                msg: indep::parse(&p.data),
            };
            self.push(d, Kind::Out(out));
        }
        pk
    }

    /// Releases daemon `d` for one iteration (or to the next park point) and waits for it,
    /// draining its event channels meanwhile. Outputs go to the log; multicasts are queued on
    /// the other endpoints of the link.
    pub fn step(&mut self, d: usize) -> StepOut {
        if self.ds[d].state != StepOut::Parked {
            return StepOut::Dead;
        }
        let log_before = self.log.len();
        self.ds[d].ctl.set_now(self.now);
        self.ds[d].needs_step = false;
        if !self.ds[d].ctl.release() {
            self.ds[d].state = StepOut::Hung;
            return StepOut::Hung;
        }
        self.steps += 1;
        let start = Instant::now();
        let mut wait = Duration::from_micros(200);
        let res = loop {
            match self.ds[d].ctl.wait_parked(wait) {
                Ok(Phase::Parked) => break StepOut::Parked,
                Ok(Phase::Exited { panicked }) => break StepOut::Exited { panicked },
                Ok(_) | Err(_) => {
                    // Possibly blocked on a full event channel: drain and keep waiting.
                    if self.release_when_blocked && start.elapsed() > Duration::from_millis(400) {
                        self.ds[d].hold_b.clear();
            self.ds[d].hold_h.clear();
                        self.ds[d].hold_h.clear();
                    }
                    self.drain(d);
                    if start.elapsed() > self.hang {
                        break StepOut::Hung;
                    }
                    if wait < Duration::from_millis(20) {
                        wait *= 2;
                    }
                }
            }
        };
        let pk = self.collect_egress(d);
        self.drain(d);
        self.ds[d].state = res.clone();
        if res == StepOut::Parked {
            let park = self.ds[d].ctl.park_info();
            self.ds[d].iters += 1;
            self.ds[d].next_wake = park.timeout_ms.map(|ms| park.parked_at + ms);
            // spin guard bookkeeping
            let quiet = self.log.len() == log_before;
            let soon = matches!(self.ds[d].next_wake, Some(t) if t <= self.now + 1);
            if quiet && soon && park.point.is_none() {
                self.ds[d].spin_run += 1;
                self.ds[d].max_spin_run = self.ds[d].max_spin_run.max(self.ds[d].spin_run);
            } else {
                self.ds[d].spin_run = 0;
            }
            if self.trace && std::env::var("VERIF_TRACE_PARK").is_ok() {
                println!("      park d{} it={} at +{} timeout={:?} point={:?}", d, park.iteration, park.parked_at - T0, park.timeout_ms, park.point);
            }
            self.ds[d].park = park;
        } else {
            self.ds[d].next_wake = None;
        }
        // deliver multicasts to the other endpoints of the link
        for p in pk {
            if !p.dst.ip().is_multicast() {
                continue;
            }
            let Some(ifi) = p.if_index else { continue };
            let Some(src_ip) = p.src_ip else { continue };
            let mut targets = Vec::new();
            for l in &self.links {
                if l.contains(&(d, ifi)) {
                    for &(d2, i2) in l {
                        if (d2, i2) != (d, ifi) {
                            targets.push((d2, i2));
                        }
                    }
                }
            }
            if self.loopback && res == StepOut::Parked {
                targets.push((d, ifi));
            }
            for (d2, i2) in targets {
                if self.ds[d2].state != StepOut::Parked && d2 != d {
                    continue;
                }
                self.ds[d2].ctl.inject(InPkt {
                    data: p.data.clone(),
                    if_index: i2,
                    src: SocketAddr::new(src_ip, 5353),
                });
                self.ds[d2].needs_step = true;
            }
        }
        res
    }

    /// Steps every daemon that has undelivered input until none has.
    pub fn settle(&mut self) {
        let mut guard = 0;
        loop {
            let Some(d) = (0..self.ds.len())
                .find(|&d| self.ds[d].needs_step && self.ds[d].state == StepOut::Parked)
            else {
                break;
            };
            self.step(d);
            guard += 1;
            if guard > 20_000 || self.storm.is_some() {
                if self.storm.is_none() {
                    let tail: Vec<String> = self.log.iter().rev().take(4).map(|e| truncate_line(&e.line(), 300)).collect::<Vec<_>>().into_iter().rev().collect();
                    self.storm = Some(format!("packet storm: 20000 iterations in one virtual millisecond at +{}; last packets: {}", self.now - T0, tail.join(" || ")));
                }
                for d in self.ds.iter_mut() {
                    d.needs_step = false;
                }
                break;
            }
        }
    }

    /// Step `d` once (it was poked by a command or datagram), then settle the links.
    pub fn poke(&mut self, d: usize) -> StepOut {
        let r = self.step(d);
        self.settle();
        r
    }

    /// Queue a datagram for daemon `d` and let it run one iteration.
    pub fn deliver(&mut self, d: usize, if_index: u32, src: &str, data: Vec<u8>) -> StepOut {
        self.queue(d, if_index, src, data);
        self.poke(d)
    }

    /// Queue a datagram without stepping (batching deviation).
    pub fn queue(&mut self, d: usize, if_index: u32, src: &str, data: Vec<u8>) {
        self.ds[d].ctl.inject(InPkt {
            data,
            if_index,
            src: src.parse().expect("src addr"),
        });
    }

    pub fn set_now(&mut self, t: u64) {
        assert!(t >= self.now, "time goes backwards");
        self.now = t;
        for d in &self.ds {
            d.ctl.set_now(t);
        }
    }

    /// Earliest wake-up any live daemon asked for.
    pub fn next_wake(&self) -> Option<(u64, usize)> {
        self.ds
            .iter()
            .enumerate()
            .filter(|(_, d)| d.state == StepOut::Parked)
            .filter_map(|(i, d)| d.next_wake.map(|t| (t, i)))
            .min()
    }

    /// Advance to the earliest requested wake-up (if it is <= limit) and step that daemon.
    /// Returns false if nothing is due by `limit`.
    pub fn wake_next(&mut self, limit: u64) -> bool {
        match self.next_wake() {
            Some((t, d)) if t <= limit => {
                self.set_now(t.max(self.now));
                self.poke(d);
                true
            }
            _ => false,
        }
    }

    /// Self-timed run: wake daemons exactly when they asked to, until virtual time `until`.
    pub fn run_until(&mut self, until: u64) {
        let mut guard: u64 = 0;
        while self.wake_next(until) {
            guard += 1;
            if guard > 2_000_000 {
                panic!("run_until: more than 2M iterations");
            }
        }
        if until > self.now {
            self.set_now(until);
        }
    }

    pub fn advance(&mut self, ms: u64) {
        let t = self.now + ms;
        self.run_until(t);
    }

    /// Densely-woken run: every daemon is stepped at every virtual millisecond.
    pub fn run_dense_until(&mut self, until: u64) {
        while self.now < until {
            self.set_now(self.now + 1);
            for d in 0..self.ds.len() {
                self.step(d);
            }
            self.settle();
        }
    }

    pub fn alive(&self, d: usize) -> bool {
        self.ds[d].state == StepOut::Parked
    }

    pub fn dump(&self, d: usize) -> Option<String> {
        if self.ds[d].state != StepOut::Parked {
            return None;
        }
        self.ds[d].ctl.dump(self.hang)
    }

    /// Shut every daemon down and join (best effort); called from Drop too.
    pub fn shutdown_all(&mut self) {
        for d in 0..self.ds.len() {
            if self.ds[d].state != StepOut::Parked {
                continue;
            }
            self.ds[d].ctl.enable_exit_points(false);
            let r = self.ds[d].h.shutdown();
            let mut n = 0;
            while self.ds[d].state == StepOut::Parked && n < 8 {
                // the Exit command is processed in the first iteration unless the queue is long
                let _ = self.step(d);
                n += 1;
            }
            drop(r);
        }
    }

    /// Outputs in the log from index `from` on.
    pub fn outs_since(&self, from: usize) -> impl Iterator<Item = (&Ev, &Out)> {
        self.log[from..].iter().filter_map(|e| match &e.kind {
            Kind::Out(o) => Some((e, o)),
            _ => None,
        })
    }
}

impl Drop for World {
    fn drop(&mut self) {
        // Never leave daemon threads parked forever: release them into shutdown.
        self.trace = false;
        for d in 0..self.ds.len() {
            self.ds[d].hold_b.clear();
            if self.ds[d].state == StepOut::Hung {
                // Blocked on a full channel: dropping the receivers unblocks the send.
                self.ds[d].browse.clear();
                self.ds[d].host.clear();
                self.ds[d].mon.clear();
                match self.ds[d].ctl.wait_parked(Duration::from_secs(2)) {
                    Ok(Phase::Parked) => self.ds[d].state = StepOut::Parked,
                    Ok(Phase::Exited { panicked }) => {
                        self.ds[d].state = StepOut::Exited { panicked }
                    }
                    _ => {}
                }
            }
        }
        self.shutdown_all();
        // A daemon that is hung cannot be joined; it is leaked (its thread stays blocked).
    }
}

/// FNV-1a 128-bit, for digests of canonical text.
fn truncate_line(s: &str, n: usize) -> String {
    s.chars().take(n).collect()
}

pub fn fnv128(data: &[u8]) -> u128 {
    let mut h: u128 = 0x6c62272e07bb014262b821756295c58d;
    for &b in data {
        h ^= b as u128;
        h = h.wrapping_mul(0x0000000001000000000000000000013B);
    }
    h
}

/// Hash of the canonical observation log (order-insensitive within one millisecond & daemon).
pub fn outcome_hash(log: &[Ev]) -> u128 {
    let mut lines: Vec<(u64, usize, String)> =
        log.iter().map(|e| (e.t, e.d, e.line())).collect();
    lines.sort();
    let mut s = String::new();
    for (_, _, l) in lines {
        s.push_str(&l);
        s.push('\n');
    }
    fnv128(s.as_bytes())
}
