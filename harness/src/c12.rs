//! C12 — the daemon wakes itself for all time-driven work and never spins (Engine S).
//!
//! Differential oracle: the same history is executed self-timed (woken only when the daemon asked
//! to be) and densely woken (additionally at every virtual millisecond). The run loop re-tests
//! every time condition on every iteration, so the dense run performs each action in the first
//! millisecond it is enabled; the property holds iff both observable logs are equal.
use crate::fw::*;
use crate::indep::*;
use crate::scn::*;
use crate::sim::*;
use std::time::Duration;

#[derive(Clone, Copy, Debug, PartialEq)]
enum Op {
    Register,
    PeerProbeWins,
    PeerProbeWinsBoth,
    PeerProbeLoses,
    ConflictResponse,
    Browse,
    ResolveHost,
    ResolveHostTimeout,
    Verify,
    Unregister,
    StopBrowse,
    StopResolve,
    Announce2,
    Announce10,
    Goodbye,
    IpCheck0,
    IpCheck1,
    IpCheckDefault,
    IpCheckHuge,
    AddrAdded,
    AddrRemoved,
    Idle100,
    Idle1s,
    // cache-flush alphabet (part "flush-histories" only)
    HostTwoAddrs,
    HostOnlyX,
    HostOnlyY,
    SrvOtherPort,
    TxtOther,
    Idle1100,
    VerifyShort,
    // interface loss during probing (part "probing-interrupted-by-interface-loss" only)
    If0Gone,
    If0Back,
    Idle5100,
    Idle400,
    Idle700,
    // a response about a type nobody browses that also carries the address record of our
    // instance's host again, with a short TTL (part "records-restated-by-foreign-responses" only)
    ForeignRestatesAddr4,
    ForeignRestatesAddr10,
    Announce120,
}
/// Events of the focused cache-flush part: a flushing record moves the expiry of its older siblings
/// to one second from now, which is time-driven work the daemon must wake itself for.
const FLUSH_OPS: [Op; 8] = [Op::HostTwoAddrs, Op::HostOnlyX, Op::HostOnlyY, Op::Idle1100, Op::VerifyShort, Op::SrvOtherPort, Op::TxtOther, Op::Announce10];
const OPS: [Op; 23] = [
    Op::Register,
    Op::PeerProbeWins,
    Op::PeerProbeWinsBoth,
    Op::PeerProbeLoses,
    Op::ConflictResponse,
    Op::Browse,
    Op::ResolveHost,
    Op::ResolveHostTimeout,
    Op::Verify,
    Op::Unregister,
    Op::StopBrowse,
    Op::StopResolve,
    Op::Announce2,
    Op::Announce10,
    Op::Goodbye,
    Op::IpCheck0,
    Op::IpCheck1,
    Op::IpCheckDefault,
    Op::IpCheckHuge,
    Op::AddrAdded,
    Op::AddrRemoved,
    Op::Idle100,
    Op::Idle1s,
];

struct Exec {
    lines: Vec<String>,
    iters: u64,
    max_spin: u32,
    max_iters_per_quiet_second: u64,
    fault: Option<String>,
    states: Vec<u128>,
    steps: u64,
}

/// `fam`: 0 = one IPv4 interface, 1 = one IPv6-only interface (service and peer on IPv6),
/// 2 = one interface with both (service with an address of each family).
fn exec(seq: &[Op], dense: bool, horizon_ms: u64, trace: bool, fam: u8) -> Exec {
    let mut w = World::one(match fam {
        0 => lay_v4(),
        1 => lay_v6(),
        _ => lay_dual(),
    });
    let peer0: &str = if fam == 1 { PEER0_V6 } else { PEER0 };
    let my_ips = ["10.0.0.5", "fd00::5", "10.0.0.5,fd00::5"][fam as usize];
    w.trace = trace;
    let mon = w.ds[0].h.monitor().unwrap();
    w.add_mon(0, mon);
    w.poke(0);
    let i = Inst::simple("inst", "h", [10, 0, 0, 9]);
    let adv = |w: &mut World, ms: u64| {
        let t = w.now + ms;
        if dense {
            w.run_dense_until(t)
        } else {
            w.run_until(t)
        }
    };
    for op in seq {
        match op {
            Op::Register => {
                w.ds[0].h.register(svc("_t._tcp.local.", "mine", "myhost.local.", my_ips, 80, &[])).unwrap();
                w.poke(0);
            }
            Op::PeerProbeWins | Op::PeerProbeLoses => {
                // 100 ms later (so that our own probing has started): a simultaneous probe
                // for our host name with later / earlier data
                adv(&mut w, 100);
                let ip = if *op == Op::PeerProbeWins { [10, 0, 0, 200] } else { [10, 0, 0, 1] };
                let mut m = query(vec![(n("myhost.local"), T_ANY)]);
                let mut r = a(&n("myhost.local"), ip, 120);
                r.flush = false;
                m.authorities.push(r);
                w.deliver(0, IF0, peer0, build(&m));
            }
            Op::PeerProbeWinsBoth => {
                // a peer probing for both of our names at once, with later data for both
                adv(&mut w, 100);
                let mut m = query(vec![(n("myhost.local"), T_ANY), (n("mine._t._tcp.local"), T_ANY)]);
                let mut r = a(&n("myhost.local"), [10, 0, 0, 200], 120);
                r.flush = false;
                m.authorities.push(r);
                let mut r = srv(&n("mine._t._tcp.local"), &n("zzz.local"), 9999, 120);
                r.flush = false;
                m.authorities.push(r);
                let mut r = txt(&n("mine._t._tcp.local"), &[1, b'z'], 4500);
                r.flush = false;
                m.authorities.push(r);
                w.deliver(0, IF0, peer0, build(&m));
            }
            Op::ConflictResponse => {
                adv(&mut w, 100);
                let m = response(vec![a(&n("myhost.local"), [10, 0, 0, 77], 120)]);
                w.deliver(0, IF0, peer0, build(&m));
            }
            Op::Browse => {
                let rx = w.ds[0].h.browse("_t._tcp.local.").unwrap();
                w.add_browse(0, rx);
                w.poke(0);
            }
            Op::ResolveHost | Op::ResolveHostTimeout => {
                let rx = w.ds[0].h.resolve_hostname("h.local.", if *op == Op::ResolveHost { None } else { Some(1500) }).unwrap();
                w.add_host(0, rx);
                w.poke(0);
            }
            Op::Verify => {
                w.ds[0].h.verify(i.fullname(), Duration::from_millis(3000)).unwrap();
                w.poke(0);
            }
            Op::Unregister => {
                let _ = w.ds[0].h.unregister("mine._t._tcp.local.").unwrap();
                w.poke(0);
            }
            Op::StopBrowse => {
                w.ds[0].h.stop_browse("_t._tcp.local.").unwrap();
                w.poke(0);
            }
            Op::StopResolve => {
                w.ds[0].h.stop_resolve_hostname("h.local.").unwrap();
                w.poke(0);
            }
            Op::Announce2 => {
                w.deliver(0, IF0, peer0, build(&response(i.all(2))));
            }
            Op::Announce10 => {
                w.deliver(0, IF0, peer0, build(&response(i.all(10))));
            }
            Op::Goodbye => {
                w.deliver(0, IF0, peer0, build(&response(i.all(0))));
            }
            Op::IpCheck0 | Op::IpCheck1 | Op::IpCheckDefault | Op::IpCheckHuge => {
                let v = match op {
                    Op::IpCheck0 => 0,
                    Op::IpCheck1 => 1,
                    Op::IpCheckDefault => 5,
                    _ => 1_000_000,
                };
                w.ds[0].h.set_ip_check_interval(v).unwrap();
                w.poke(0);
            }
            Op::AddrAdded => {
                let mut t = w.ds[0].ctl.get_intfs();
                if !t.iter().any(|x| x.index == IF1) {
                    t.push(v4("sim1", IF1, "10.0.1.1", 24));
                }
                w.ds[0].ctl.set_intfs(t);
            }
            Op::AddrRemoved => {
                let mut t = w.ds[0].ctl.get_intfs();
                t.retain(|x| x.index != IF1);
                w.ds[0].ctl.set_intfs(t);
            }
            Op::If0Gone => {
                let mut t = w.ds[0].ctl.get_intfs();
                t.retain(|x| x.index != IF0);
                w.ds[0].ctl.set_intfs(t);
            }
            Op::If0Back => {
                let mut t = w.ds[0].ctl.get_intfs();
                if !t.iter().any(|x| x.index == IF0) {
                    t.extend(match fam {
                        0 => lay_v4(),
                        1 => lay_v6(),
                        _ => lay_dual(),
                    });
                }
                w.ds[0].ctl.set_intfs(t);
            }
            Op::ForeignRestatesAddr4 | Op::ForeignRestatesAddr10 => {
                let ttl = if *op == Op::ForeignRestatesAddr4 { 4 } else { 10 };
                let recs = vec![ptr(&n("_z._udp.local"), &n("other._z._udp.local"), 4500), a(&n("h.local"), [10, 0, 0, 9], ttl)];
                w.deliver(0, IF0, peer0, build(&response(recs)));
            }
            Op::Announce120 => {
                w.deliver(0, IF0, peer0, build(&response(i.all(120))));
            }
            Op::Idle5100 => adv(&mut w, 5100),
            Op::Idle400 => adv(&mut w, 400),
            Op::Idle700 => adv(&mut w, 700),
            Op::Idle100 => adv(&mut w, 100),
            Op::Idle1s => adv(&mut w, 1000),
            Op::Idle1100 => adv(&mut w, 1100),
            Op::VerifyShort => {
                // a deadline closer than the one-second resend of the verify query
                w.ds[0].h.verify(i.fullname(), Duration::from_millis(400)).unwrap();
                w.poke(0);
            }
            Op::HostTwoAddrs => {
                w.deliver(0, IF0, peer0, build(&response(vec![a(&n("h.local"), [10, 0, 0, 9], 120), a(&n("h.local"), [10, 0, 0, 10], 120)])));
            }
            Op::HostOnlyX => {
                w.deliver(0, IF0, peer0, build(&response(vec![a(&n("h.local"), [10, 0, 0, 9], 120)])));
            }
            Op::HostOnlyY => {
                w.deliver(0, IF0, peer0, build(&response(vec![a(&n("h.local"), [10, 0, 0, 10], 120)])));
            }
            Op::SrvOtherPort => {
                w.deliver(0, IF0, peer0, build(&response(vec![srv(&i.inst, &i.host, 4242, 120)])));
            }
            Op::TxtOther => {
                w.deliver(0, IF0, peer0, build(&response(vec![txt(&i.inst, &[3, b'q', b'=', b'1'], 4500)])));
            }
        }
    }
    // silent horizon; count iterations per quiet second in the self-timed run
    let start_iters = w.ds[0].iters;
    let mut max_per_sec = 0u64;
    let secs = horizon_ms / 1000;
    for _ in 0..secs {
        let it0 = w.ds[0].iters;
        let l0 = w.log.len();
        adv(&mut w, 1000);
        if w.log.len() == l0 {
            max_per_sec = max_per_sec.max(w.ds[0].iters - it0);
        }
    }
    let _ = start_iters;
    let mut lines: Vec<(u64, String)> = w.log.iter().map(|e| (e.t, e.line())).collect();
    lines.sort();
    Exec {
        lines: lines.into_iter().map(|x| x.1).collect(),
        iters: w.ds[0].iters,
        max_spin: w.ds[0].max_spin_run,
        max_iters_per_quiet_second: max_per_sec,
        fault: daemon_fault(&w, 0),
        states: final_states(&w),
        steps: w.steps,
    }
}

fn seq_of(mut idx: u64, max: usize) -> Vec<Op> {
    let mut len = 0;
    let mut block = 1u64;
    while idx >= block {
        idx -= block;
        block *= OPS.len() as u64;
        len += 1;
        assert!(len <= max);
    }
    (0..len)
        .map(|_| {
            let o = OPS[(idx % OPS.len() as u64) as usize];
            idx /= OPS.len() as u64;
            o
        })
        .collect()
}

fn classify(seq: &[Op], a_line: Option<&String>, b_line: Option<&String>) -> String {
    // what kind of time-driven work differs: derived from the first differing log entry
    let l = b_line.or(a_line).cloned().unwrap_or_default();
    let what = if l.contains("QUERY") && l.contains("t255") {
        "probe"
    } else if l.contains("QUERY") {
        "query"
    } else if l.contains("RESP") && l.contains("ttl0") {
        "goodbye"
    } else if l.contains("RESP") {
        "announcement"
    } else if l.contains("Removed") {
        "removal-event"
    } else if l.contains("Timeout") || l.contains("Stopped") {
        "search-end-event"
    } else if l.contains("IpAdd") || l.contains("IpDel") {
        "interface-event"
    } else if l.contains("Announce") || l.contains("NameChange") {
        "monitor-event"
    } else {
        "other"
    };
    let ctx = if (seq.contains(&Op::PeerProbeWins) || seq.contains(&Op::PeerProbeWinsBoth)) && (what == "probe" || what == "announcement") {
        "after-lost-tiebreak"
    } else if seq.contains(&Op::ConflictResponse) && (what == "probe" || what == "announcement" || what == "monitor-event") {
        "after-conflict-rename"
    } else if seq.iter().any(|o| matches!(o, Op::IpCheck0 | Op::IpCheck1 | Op::IpCheckDefault | Op::IpCheckHuge)) && what == "interface-event" {
        "after-interval-change"
    } else {
        "plain"
    };
    format!("{what}|{ctx}")
}

fn run_case(seq: &[Op], horizon: u64, trace: bool) -> CaseResult {
    run_case_fam(seq, horizon, trace, 0)
}

fn run_case_fam(seq: &[Op], horizon: u64, trace: bool, fam: u8) -> CaseResult {
    let mut res = CaseResult::default();
    let a = exec(seq, false, horizon, trace, fam);
    let b = exec(seq, true, horizon, false, fam);
    res.transitions = a.steps + b.steps;
    res.states = a.states.clone();
    res.outcome = fnv128(a.lines.join("\n").as_bytes());
    res.nontrivial = !a.lines.is_empty();
    res.count("self_timed_iterations", a.iters);
    res.count("dense_iterations", b.iters);
    res.count("log_entries_compared", a.lines.len() as u64);
    if let Some(f) = a.fault.clone().or(b.fault.clone()) {
        res.viols.push(viol(format!("C12|daemon-fault|{}", panic_sig(&f)), f));
        return res;
    }
    if a.lines != b.lines {
        let mut k = 0;
        while k < a.lines.len().min(b.lines.len()) && a.lines[k] == b.lines[k] {
            k += 1;
        }
        let sig = classify(seq, a.lines.get(k), b.lines.get(k));
        res.viols.push(viol(
            format!("C12|late-or-missing-wakeup|{sig}"),
            format!(
                "first difference at entry {k}: self-timed run has {:?}, densely woken run has {:?}",
                a.lines.get(k).map(|s| truncate(s, 300)),
                b.lines.get(k).map(|s| truncate(s, 300))
            ),
        ));
    }
    if a.max_spin > 3 || a.max_iters_per_quiet_second > 20 {
        let ctx = if seq.contains(&Op::IpCheck0) { "ip-check-interval-0" } else { "other" };
        res.viols.push(viol(
            format!("C12|spin|{ctx}"),
            format!("self-timed run: {} consecutive iterations asked for a wake-up <= now+1 ms without output; up to {} iterations in a silent second", a.max_spin, a.max_iters_per_quiet_second),
        ));
    }
    res
}

pub fn check(tier: &str) -> i32 {
    let mut rep = Report::new("C12", tier, "model_checking");
    let thorough = rep.thorough();
    rep.assume("differential oracle: the run loop re-tests every time condition each iteration, so a run woken every virtual millisecond does each piece of time-driven work in the first millisecond it is enabled");
    rep.assume("spin = more than 3 consecutive iterations asking for a wake-up <= now+1 ms while producing nothing, or more than 20 iterations in a silent virtual second");
    let depth = if thorough { 3 } else { 2 };
    let horizon = if thorough { 14_000 } else { 6_000 };
    let mut nseq = 0u64;
    let mut b = 1u64;
    for _ in 0..=depth {
        nseq += b;
        b *= OPS.len() as u64;
    }
    let part = FnPart {
        name: "self-timed-vs-dense".into(),
        rule: format!("every sequence of <= {depth} events over {} API calls / packets / interface changes / idles, followed by {} s of silence; each executed twice (self-timed, woken every ms) and the observable logs compared; non-trivial = the run produced observable output", OPS.len(), horizon / 1000),
        n: nseq,
        describe: Box::new(move |i| format!("{:?}", seq_of(i, depth))),
        run: Box::new(move |i, tr| run_case(&seq_of(i, depth), horizon, tr)),
    };
    rep.run_part(&part, Duration::from_secs(if thorough { 7200 } else { 50 }));
    // an announced service on each address family: IPv4 only, IPv6 only, both on one interface
    let fdepth6 = if thorough { 2usize } else { 1 };
    let mut n6 = 0u64;
    let mut b = 1u64;
    for _ in 0..=fdepth6 {
        n6 += b;
        b *= OPS.len() as u64;
    }
    let fseq6 = move |i: u64| -> Vec<Op> {
        let mut v = vec![Op::Register, Op::Idle1s, Op::Idle1s];
        v.extend(seq_of(i, fdepth6));
        v
    };
    let fams = FnPart {
        name: "announced-service-on-each-address-family".into(),
        rule: format!("(one IPv4 interface | an IPv6-only interface with the service and the peer on IPv6 | one interface with both families and a service with an address of each) x a service registered and announced x every sequence of <= {fdepth6} of the same events, followed by {} s of silence; same comparison", horizon / 1000),
        n: 3 * n6,
        describe: Box::new(move |i| format!("{} {:?}", ["ipv4-only", "ipv6-only", "dual-stack"][(i % 3) as usize], fseq6(i / 3))),
        run: Box::new(move |i, tr| run_case_fam(&fseq6(i / 3), horizon, tr, (i % 3) as u8)),
    };
    rep.run_part(&fams, Duration::from_secs(if thorough { 3600 } else { 50 }));
    rep.require("announced-service-on-each-address-family", "log_entries_compared");
    // the interface goes away while the service is probing on it and comes back later
    let gaps: Vec<Op> = if thorough { vec![Op::Idle100, Op::Idle400, Op::Idle700] } else { vec![Op::Idle100, Op::Idle700] };
    let outs: Vec<Vec<Op>> = if thorough { vec![vec![Op::Idle1100], vec![Op::Idle1100, Op::Idle1s], vec![Op::Idle1100, Op::Idle1s, Op::Idle1s, Op::Idle1s]] } else { vec![vec![Op::Idle1100], vec![Op::Idle1100, Op::Idle1s]] };
    let (ng, no) = (gaps.len() as u64, outs.len() as u64);
    let lhor = if thorough { 8_000 } else { 5_000 };
    let lseq = move |i: u64| -> (Vec<Op>, u8) {
        // the checks fall on whole seconds from 5 s on: the registration is placed 0.1 / 0.4 / 0.7 s after
        // one, the interface is gone 100 ms later, so that the next check finds it gone mid-probing
        let mut v = vec![Op::IpCheck1, Op::Idle5100, gaps[(i % ng) as usize], Op::Register, Op::Idle100, Op::If0Gone];
        v.extend(outs[((i / ng) % no) as usize].clone());
        v.push(Op::If0Back);
        // the check that finds it back is the last one for a long time, or they go on every second
        if (i / (ng * no)) % 2 == 1 {
            v.extend([Op::Idle1100, Op::IpCheckHuge]);
        }
        (v, (i / (ng * no * 2)) as u8)
    };
    let lseq2 = lseq.clone();
    let loss = FnPart {
        name: "probing-interrupted-by-interface-loss".into(),
        rule: format!("interface check every second; a service is registered {} after a check and its interface disappears 0.1 s later (the next check finds it gone before, in the middle of, or after the probing), to come back {} later (then: checks go on every second | the interval is made huge once the interface is back) x (IPv4-only | IPv6-only | dual-stack interface), {} s of silence; same comparison (the interrupted probing must be resumed when due, not at the next unrelated wake-up)", if thorough { "0.2 / 0.5 / 0.8 s" } else { "0.2 / 0.8 s" }, if thorough { "1.1 / 2.1 / 4.1 s" } else { "1.1 / 2.1 s" }, lhor / 1000),
        n: ng * no * 2 * 3,
        describe: Box::new(move |i| format!("{:?}", lseq2(i))),
        run: Box::new(move |i, tr| { let (v, fam) = lseq(i); run_case_fam(&v, lhor, tr, fam) }),
    };
    rep.run_part(&loss, Duration::from_secs(120));
    // a held record restated by a response that is not for us: its new refresh time needs a wake-up too
    let rops = [Op::ForeignRestatesAddr4, Op::ForeignRestatesAddr10];
    let rgaps = [Op::Idle100, Op::Idle700, Op::Idle1s];
    let rseq = move |i: u64| -> Vec<Op> { vec![Op::IpCheckHuge, Op::Browse, Op::Announce120, rgaps[(i % 3) as usize], rops[((i / 3) % 2) as usize]] };
    let (rn, rhor) = if thorough { (6, 12_000) } else { (3, 6_000) };
    let rseq2 = rseq.clone();
    let restated = FnPart {
        name: "records-restated-by-foreign-responses".into(),
        rule: "a browse has resolved an instance (TTL 120); 0.1 / 0.7 / 1 s later a response about a type nobody browses carries the host's address record again with TTL 4 (thorough tier: also 10, over 12 s); 6 s of silence; same comparison (the refresh queries of the shortened record must come when due)".into(),
        n: rn,
        describe: Box::new(move |i| format!("{:?}", rseq2(i))),
        run: Box::new(move |i, tr| run_case(&rseq(i), rhor, tr)),
    };
    rep.run_part(&restated, Duration::from_secs(120));
    // longer horizon for single events (record TTLs, 75-minute defaults)
    let long = FnPart {
        name: "long-horizon-singles".into(),
        rule: "every pair (Browse or Register or ResolveHost, X) for every event X, 130 s of silence (covers the 120 s host TTL), same comparison".into(),
        n: 3 * OPS.len() as u64,
        describe: Box::new(|i| format!("{:?}", [[Op::Browse, Op::Register, Op::ResolveHost][(i % 3) as usize], OPS[(i / 3) as usize]])),
        run: Box::new(move |i, tr| run_case(&[[Op::Browse, Op::Register, Op::ResolveHost][(i % 3) as usize], OPS[(i / 3) as usize]], if thorough { 130_000 } else { 16_000 }, tr)),
    };
    rep.run_part(&long, Duration::from_secs(if thorough { 1800 } else { 40 }));
    // the interface check after its interval was changed at run time
    let ipops = [Op::IpCheck0, Op::IpCheck1, Op::IpCheckDefault, Op::IpCheckHuge, Op::Idle100, Op::Idle1s];
    let ipc = FnPart {
        name: "interface-check-after-interval-changes".into(),
        rule: "every ordered pair of [interval 0, 1 s, default, huge, idle 0.1 s, idle 1 s] followed by an address appearing on a new interface, 8 s of silence; same comparison (the IpAdd event must come when the check is due)".into(),
        n: 36,
        describe: Box::new(move |i| format!("{:?}", [ipops[(i / 6) as usize], ipops[(i % 6) as usize], Op::AddrAdded])),
        run: Box::new(move |i, tr| run_case(&[ipops[(i / 6) as usize], ipops[(i % 6) as usize], Op::AddrAdded], 8_000, tr)),
    };
    rep.run_part(&ipc, Duration::from_secs(60));
    // cache-flush histories under a live browse and a live host-name search
    let (fops, fdepth, fhor): (usize, usize, u64) = if thorough { (8, 5, 6_000) } else { (5, 3, 3_000) };
    let mut nf = 0u64;
    let mut b = 1u64;
    for _ in 0..=fdepth {
        nf += b;
        b *= fops as u64;
    }
    let fseq = move |mut idx: u64| -> Vec<Op> {
        let mut len = 0;
        let mut block = 1u64;
        while idx >= block {
            idx -= block;
            block *= fops as u64;
            len += 1;
        }
        let mut v = vec![Op::IpCheckHuge, Op::Browse, Op::ResolveHost, Op::Announce10];
        for _ in 0..len {
            v.push(FLUSH_OPS[(idx % fops as u64) as usize]);
            idx /= fops as u64;
        }
        v
    };
    let flush = FnPart {
        name: "flush-histories".into(),
        rule: format!("a browse and a host-name search are running and the instance is resolved; then every sequence of <= {fdepth} events over the first {fops} of [host announces two addresses, only the first, only the second (each with the cache-flush bit), 1.1 s idle, verify with a 400 ms timeout, SRV with another port, TXT with other data, full re-announcement], followed by {} s of silence; same comparison", fhor / 1000),
        n: nf,
        describe: Box::new(move |i| format!("{:?}", fseq(i))),
        run: Box::new(move |i, tr| run_case(&fseq(i), fhor, tr)),
    };
    rep.run_part(&flush, Duration::from_secs(if thorough { 7200 } else { 40 }));
    rep.require("flush-histories", "log_entries_compared");
    rep.require("self-timed-vs-dense", "log_entries_compared");
    rep.finish()
}
