//! C13 — stopping a search really stops it, and each channel follows its protocol (Engine S).
use crate::fw::*;
use crate::indep::*;
use crate::scn::*;
use crate::sim::*;
use std::collections::HashMap;
use std::time::Duration;

#[derive(Clone, Copy, Debug, PartialEq)]
pub enum Op {
    Browse,
    BrowseDropOld,
    BrowseCache,
    StopBrowse,
    ResolveMixed,
    ResolveLowerTimeout,
    ResolveMixedTimeout,
    StopResolveMixed,
    StopResolveLower,
    Shutdown,
    DeliverPtr,
    DeliverFull,
    DeliverAddr,
    Idle3s,
    /// the client drops its browse receiver(s) without telling the daemon
    DropBrowseRx,
    /// accept_unsolicited(true): records are cached although no search asked for them
    AcceptUnsolicited,
    /// PTR and TXT of an instance, no SRV
    DeliverPtrTxt,
    /// the whole record set of another instance whose PTR has one second to live
    DeliverFullDying,
}
pub const OPS: [Op; 18] = [
    Op::Browse,
    Op::BrowseDropOld,
    Op::BrowseCache,
    Op::StopBrowse,
    Op::ResolveMixed,
    Op::ResolveLowerTimeout,
    Op::ResolveMixedTimeout,
    Op::StopResolveMixed,
    Op::StopResolveLower,
    Op::Shutdown,
    Op::DeliverPtr,
    Op::DeliverFull,
    Op::DeliverAddr,
    Op::Idle3s,
    Op::DropBrowseRx,
    Op::AcceptUnsolicited,
    Op::DeliverPtrTxt,
    Op::DeliverFullDying,
];

const TY: &str = "_t._tcp.local.";

#[derive(Clone, Debug)]
struct Chan {
    host: bool,
    cache_only: bool,
    created: u64,
    timeout_at: Option<u64>,
    /// time at which this channel's search was ended by stop / shutdown while it was current
    ended: Option<u64>,
    /// time at which a later search for the same key replaced it
    replaced: Option<u64>,
    dropped: Option<u64>,
}

pub struct Run {
    w: World,
    bchans: Vec<Chan>,
    hchans: Vec<Chan>,
    hist: Vec<(u64, usize, Op)>,
    /// (time, log index) after which no query for the type / the host may appear; None = allowed
    no_browse_q_from: Option<(u64, usize)>,
    no_host_q_from: Option<(u64, usize)>,
    metrics_after_stop: Vec<(u64, HashMap<String, i64>, bool)>,
    unsolicited: bool,
    down: bool,
    viols: Vec<Viol>,
    counters: Vec<(&'static str, u64)>,
}

pub struct Scn {
    pub horizon_ms: u64,
    /// first label of the advertised instance's host (SRV target)
    pub host: &'static str,
}

impl Scn {
    fn cur_b(run: &Run) -> Option<usize> {
        (0..run.bchans.len()).rev().find(|&i| run.bchans[i].ended.is_none() && run.bchans[i].replaced.is_none() && !run.bchans[i].cache_only)
    }
    fn cur_h(run: &Run, now: u64) -> Option<usize> {
        (0..run.hchans.len()).rev().find(|&i| {
            let c = &run.hchans[i];
            c.ended.is_none() && c.replaced.is_none() && c.timeout_at.map_or(true, |t| now < t)
        })
    }

    fn check_wire(&self, run: &mut Run) {
        let ty = n(TY);
        let host = n("foo.local");
        let only_cache = run.bchans.iter().all(|c| c.cache_only);
        let no_resolve = run.hchans.is_empty();
        let mut out = vec![];
        for (ix, e) in run.w.log.iter().enumerate() {
            let Kind::Out(o) = &e.kind else { continue };
            let Ok(m) = &o.msg else { continue };
            if m.is_response() {
                continue;
            }
            run.counters.push(("queries_inspected", 1));
            if only_cache && no_resolve {
                let kind = if asks(m, &ty, T_PTR) { "refresh-of-PTR" } else { "follow-up-for-instance-or-host" };
                out.push(viol(format!("C13|cache-only-browse-sent-a-query|{kind}"), format!("at +{}: {}", e.t - T0, m.summary())));
                continue;
            }
            if asks(m, &ty, T_PTR) && !Self::browse_open_at(run, ix) {
                out.push(viol(
                    format!("C13|query-for-stopped-browse|{}", Self::why_b(run, e.t)),
                    format!("at +{}: {}", e.t - T0, m.summary()),
                ));
            }
            if (asks(m, &host, T_A) || asks(m, &host, T_AAAA)) && !Self::host_open_at(run, ix, e.t) {
                out.push(viol(
                    format!("C13|query-for-stopped-hostname-search|{}", Self::why_h(run, e.t)),
                    format!("at +{}: {}", e.t - T0, m.summary()),
                ));
            }
        }
        run.viols.extend(out);
    }
    /// Is a real (not cache-only) browse open when log entry `ix` was produced?
    fn browse_open_at(run: &Run, ix: usize) -> bool {
        let mut open = false;
        for (_, lix, op) in &run.hist {
            if *lix > ix {
                break;
            }
            match op {
                Op::Browse | Op::BrowseDropOld => open = true,
                Op::StopBrowse | Op::Shutdown => open = false,
                _ => {}
            }
        }
        open
    }
    fn host_open_at(run: &Run, ix: usize, t: u64) -> bool {
        let mut open_until: Option<Option<u64>> = None; // None = closed, Some(None) = open, Some(Some(t)) = open until t
        for (ht, lix, op) in &run.hist {
            if *lix > ix {
                break;
            }
            match op {
                Op::ResolveMixed => open_until = Some(None),
                Op::ResolveLowerTimeout | Op::ResolveMixedTimeout => open_until = Some(Some(ht + 1500)),
                Op::StopResolveMixed | Op::StopResolveLower | Op::Shutdown => open_until = None,
                _ => {}
            }
        }
        match open_until {
            None => false,
            Some(None) => true,
            Some(Some(x)) => t < x,
        }
    }
    fn why_b(run: &Run, t: u64) -> String {
        let last = run.hist.iter().rev().find(|(ht, _, op)| *ht <= t && matches!(op, Op::StopBrowse | Op::Shutdown | Op::BrowseCache));
        format!("after-{:?}", last.map(|x| x.2))
    }
    /// Why the hostname search was over at time t: the last ending cause before t.
    fn why_h(run: &Run, t: u64) -> String {
        let mut cause = "never-started";
        let mut deadline: Option<u64> = None;
        for (ht, _, op) in &run.hist {
            if *ht > t {
                break;
            }
            if deadline.is_some_and(|d| d <= *ht) && cause == "open" {
                cause = "after-timeout";
            }
            match op {
                Op::ResolveMixed => {
                    cause = "open";
                    deadline = None;
                }
                Op::ResolveLowerTimeout | Op::ResolveMixedTimeout => {
                    cause = "open";
                    deadline = Some(ht + 1500);
                }
                Op::StopResolveMixed | Op::StopResolveLower if cause == "open" => cause = "after-stop_resolve_hostname",
                Op::Shutdown => cause = "after-shutdown",
                _ => {}
            }
        }
        if deadline.is_some_and(|d| d <= t) && cause == "open" {
            cause = "after-timeout";
        }
        cause.to_string()
    }
    fn check_channels(&self, run: &mut Run) {
        let end_of_run = run.w.now;
        let _ = end_of_run;
        for (ch, c) in run.bchans.clone().iter().enumerate() {
            let evs = bevs(&run.w, 0, ch, 0);
            let kind = if c.cache_only { "browse_cache" } else { "browse" };
            self.automaton(run, kind, c, &evs.iter().map(|(t, e)| (*t, Self::bname(e), Self::binst(e))).collect::<Vec<_>>());
        }
        for (ch, c) in run.hchans.clone().iter().enumerate() {
            let evs = hevs(&run.w, 0, ch, 0);
            self.automaton(run, "hostname", c, &evs.iter().map(|(t, e)| (*t, Self::hname(e), None)).collect::<Vec<_>>());
        }
    }
    fn bname(e: &BEv) -> &'static str {
        match e {
            BEv::Started(_) => "Started",
            BEv::Found(..) => "Found",
            BEv::Resolved(_) => "Resolved",
            BEv::Removed(..) => "Removed",
            BEv::Stopped(_) => "Stopped",
            BEv::Other(_) => "Other",
        }
    }
    fn binst(e: &BEv) -> Option<String> {
        match e {
            BEv::Found(_, i) => Some(i.clone()),
            BEv::Resolved(r) => Some(r.fullname.clone()),
            _ => None,
        }
    }
    fn hname(e: &HEv) -> &'static str {
        match e {
            HEv::Started(_) => "Started",
            HEv::Found(..) => "Found",
            HEv::Removed(..) => "Removed",
            HEv::Timeout(_) => "Timeout",
            HEv::Stopped(_) => "Stopped",
            HEv::Other(_) => "Other",
        }
    }

    fn automaton(&self, run: &mut Run, kind: &str, c: &Chan, evs: &[(u64, &'static str, Option<String>)]) {
        run.counters.push(("channels_checked", 1));
        let live_until = c.dropped.unwrap_or(u64::MAX);
        // 1. first event is SearchStarted, delivered in the iteration that took the command
        match evs.first() {
            Some((t, "Started", _)) if *t == c.created => {}
            other => {
                if c.created < live_until && !(run.down && run.hist.iter().any(|(t, _, op)| *op == Op::Shutdown && *t <= c.created)) {
                    run.viols.push(viol(format!("C13|first-event-not-SearchStarted|{kind}"), format!("channel created +{}: first event {:?}", c.created - T0, other)));
                }
            }
        }
        // 2. Found precedes Resolved per instance
        let mut found: Vec<String> = vec![];
        for (_, name, inst) in evs {
            match (*name, inst) {
                ("Found", Some(i)) => found.push(i.clone()),
                ("Resolved", Some(i)) if !found.contains(i) => {
                    run.viols.push(viol(format!("C13|ServiceResolved-without-earlier-ServiceFound|{kind}"), format!("instance {i}")));
                }
                _ => {}
            }
        }
        // 3. end of search
        // a timeout only ends the search if no later search replaced it before the deadline
        let eff_timeout = c.timeout_at.filter(|t| *t <= run.w.now && c.replaced.map_or(true, |r| r >= *t));
        let end = [c.ended, eff_timeout].into_iter().flatten().min();
        let stopped: Vec<u64> = evs.iter().filter(|e| e.1 == "Stopped").map(|e| e.0).collect();
        if c.cache_only {
            // SearchStopped right away; later events allowed
            if stopped.first() != Some(&c.created) {
                run.viols.push(viol("C13|cache-only-browse-without-immediate-SearchStopped", format!("created +{} stopped {:?}", c.created - T0, stopped)));
            }
            return;
        }
        if let Some(te) = end {
            let replaced_before = c.replaced.is_some_and(|r| r <= te);
            if !replaced_before && te < live_until {
                run.counters.push(("search_ends_checked", 1));
                if stopped != vec![te] {
                    run.viols.push(viol(
                        format!("C13|SearchStopped-not-delivered-exactly-once-at-the-end|{kind}|{}x", stopped.len().min(2)),
                        format!("search ended at +{}, SearchStopped at {:?}; events {:?}", te - T0, stopped.iter().map(|t| t - T0).collect::<Vec<_>>(), evs.iter().map(|e| (e.0 - T0, e.1)).collect::<Vec<_>>()),
                    ));
                }
                if c.timeout_at == Some(te) && c.ended.map_or(true, |e| e > te) {
                    // timeout: SearchTimeout first
                    let pos_to = evs.iter().position(|e| e.1 == "Timeout");
                    let pos_st = evs.iter().position(|e| e.1 == "Stopped");
                    if pos_to.is_none() || pos_st.is_none() || pos_to > pos_st || evs[pos_to.unwrap()].0 != te {
                        run.viols.push(viol("C13|SearchTimeout-missing-or-not-before-SearchStopped", format!("timeout at +{}: events {:?}", te - T0, evs.iter().map(|e| (e.0 - T0, e.1)).collect::<Vec<_>>())));
                    }
                }
            }
            // nothing after the end (also for a replaced channel whose receiver is still held)
            if let Some(last) = evs.iter().rev().find(|e| e.0 > te || (e.0 == te && e.1 != "Stopped" && e.1 != "Timeout" && evs.iter().position(|x| x.1 == "Stopped").is_some_and(|p| evs.iter().position(|x| std::ptr::eq(x, *e)).unwrap() > p))) {
                run.viols.push(viol(
                    format!("C13|event-after-end-of-search|{kind}|{}|{}", last.1, if kind == "hostname" { Self::why_h(run, last.0) } else { Self::why_b(run, last.0) }),
                    format!("search ended at +{}: later event {:?} at +{}; events {:?}", te - T0, last.1, last.0 - T0, evs.iter().map(|e| (e.0 - T0, e.1)).collect::<Vec<_>>()),
                ));
            }
        } else if !stopped.is_empty() {
            run.viols.push(viol(format!("C13|SearchStopped-on-a-search-that-was-not-ended|{kind}"), format!("at {:?}", stopped)));
        }
    }
}

impl Scenario for Scn {
    type Run = Run;
    fn name(&self) -> String {
        if self.host == "srvhost" {
            "search-start-stop-sequences".into()
        } else {
            "search-start-stop-sequences-host-with-capitals".into()
        }
    }
    fn rule(&self) -> String {
        "all sequences over {browse, browse again dropping the old receiver, dropping the receiver without a new browse, accept_unsolicited(true), browse_cache, stop_browse, resolve_hostname Foo.local. (no timeout / 1500 ms, mixed or lower case), stop_resolve_hostname in either case, shutdown, deliver PTR / PTR+TXT / full record set / full record set of an instance whose PTR has 1 s to live / address record, idle 3 s}, then silence for the horizon; states de-duplicated on daemon dump + channel bookkeeping".into()
    }
    fn setup(&self) -> Run {
        let mut w = World::one(lay_v4());
        w.ds[0].h.set_ip_check_interval(0).unwrap();
        w.poke(0);
        Run { w, bchans: vec![], hchans: vec![], hist: vec![], no_browse_q_from: None, no_host_q_from: None, metrics_after_stop: vec![], unsolicited: false, down: false, viols: vec![], counters: vec![] }
    }
    fn menu(&self, run: &Run) -> Vec<String> {
        if run.down {
            return vec![];
        }
        OPS.iter().map(|o| format!("{o:?}")).collect()
    }
    fn apply(&self, run: &mut Run, choice: usize) {
        let op = OPS[choice];
        let now = run.w.now;
        let lix = run.w.log.len();
        run.hist.push((now, lix, op));
        let inst = Inst::simple(if self.host == "srvhost" { "inst" } else { "Inst \u{c9}tage" }, self.host, [10, 0, 0, 9]);
        match op {
            Op::Browse | Op::BrowseDropOld | Op::BrowseCache => {
                if op == Op::BrowseDropOld {
                    for ch in 0..run.bchans.len() {
                        if run.bchans[ch].dropped.is_none() {
                            run.bchans[ch].dropped = Some(now);
                            run.w.drop_browse(0, ch);
                        }
                    }
                }
                let cache_only = op == Op::BrowseCache;
                let rx = if cache_only { run.w.ds[0].h.browse_cache(TY) } else { run.w.ds[0].h.browse(TY) }.unwrap();
                // the daemon keeps one listener per type: a new browse replaces the current one
                for c in run.bchans.iter_mut() {
                    if c.ended.is_none() && c.replaced.is_none() {
                        c.replaced = Some(now);
                    }
                }
                run.w.add_browse(0, rx);
                run.bchans.push(Chan { host: false, cache_only, created: now, timeout_at: None, ended: None, replaced: None, dropped: None });
                run.w.poke(0);
            }
            Op::AcceptUnsolicited => {
                run.w.ds[0].h.accept_unsolicited(true).unwrap();
                run.w.poke(0);
                run.unsolicited = true;
            }
            Op::DropBrowseRx => {
                for ch in 0..run.bchans.len() {
                    if run.bchans[ch].dropped.is_none() {
                        run.bchans[ch].dropped = Some(now);
                        run.w.drop_browse(0, ch);
                    }
                }
            }
            Op::StopBrowse => {
                run.w.ds[0].h.stop_browse(TY).unwrap();
                let was_open = run.bchans.iter().any(|c| c.ended.is_none() && c.replaced.is_none());
                if let Some(i) = (0..run.bchans.len()).rev().find(|&i| run.bchans[i].ended.is_none() && run.bchans[i].replaced.is_none()) {
                    run.bchans[i].ended = Some(now);
                    // the search is over for every earlier receiver of this type as well
                    for c in run.bchans.iter_mut() {
                        if c.ended.is_none() {
                            c.ended = Some(now);
                        }
                    }
                }
                run.w.poke(0);
                // (only when a browse was open: records kept because of accept_unsolicited were not
                // cached for a browse, and a stop_browse without a browse stops nothing)
                if was_open {
                    if let Some(m) = run.w.metrics(0) {
                        let resolver_open = Scn::cur_h(run, now).is_some();
                        run.metrics_after_stop.push((now, m, resolver_open));
                    }
                }
            }
            Op::ResolveMixed | Op::ResolveLowerTimeout | Op::ResolveMixedTimeout => {
                let (name, to) = match op {
                    Op::ResolveMixed => ("Foo.local.", None),
                    Op::ResolveLowerTimeout => ("foo.local.", Some(1500)),
                    _ => ("Foo.local.", Some(1500)),
                };
                let rx = run.w.ds[0].h.resolve_hostname(name, to).unwrap();
                for c in run.hchans.iter_mut() {
                    if c.ended.is_none() && c.replaced.is_none() && c.timeout_at.map_or(true, |t| now < t) {
                        c.replaced = Some(now);
                    }
                }
                run.w.add_host(0, rx);
                run.hchans.push(Chan { host: true, cache_only: false, created: now, timeout_at: to.map(|t| now + t), ended: None, replaced: None, dropped: None });
                run.w.poke(0);
            }
            Op::StopResolveMixed | Op::StopResolveLower => {
                run.w.ds[0].h.stop_resolve_hostname(if op == Op::StopResolveMixed { "Foo.local." } else { "foo.local." }).unwrap();
                if Scn::cur_h(run, now).is_some() {
                    for c in run.hchans.iter_mut() {
                        if c.ended.is_none() && c.timeout_at.map_or(true, |t| now < t) {
                            c.ended = Some(now);
                        }
                    }
                }
                run.w.poke(0);
            }
            Op::Shutdown => {
                let _rx = run.w.ds[0].h.shutdown().unwrap();
                for c in run.bchans.iter_mut().chain(run.hchans.iter_mut()) {
                    if c.ended.is_none() && c.timeout_at.map_or(true, |t| now < t) {
                        c.ended = Some(now);
                    }
                }
                run.w.poke(0);
                for _ in 0..3 {
                    run.w.step(0);
                }
                run.down = true;
            }
            Op::DeliverPtr => {
                run.w.deliver(0, IF0, PEER0, build(&response(vec![inst.ptr(120)])));
            }
            Op::DeliverFull => {
                run.w.deliver(0, IF0, PEER0, build(&response(inst.all(120))));
            }
            Op::DeliverPtrTxt => {
                run.w.deliver(0, IF0, PEER0, build(&response(vec![inst.ptr(120), inst.txt(120)])));
            }
            Op::DeliverFullDying => {
                let d = Inst::simple("dying", "dyinghost", [10, 0, 0, 11]);
                let mut recs = d.all(120);
                recs[0].ttl = 1;
                run.w.deliver(0, IF0, PEER0, build(&response(recs)));
            }
            Op::DeliverAddr => {
                run.w.deliver(0, IF0, PEER0, build(&response(vec![a(&n("FOO.local"), [10, 0, 0, 7], 120)])));
            }
            Op::Idle3s => run.w.advance(3000),
        }
        let _ = (run.no_browse_q_from, run.no_host_q_from, Scn::cur_b(run));
    }
    fn digest(&self, run: &mut Run) -> u128 {
        let mut s = run.w.dump(0).unwrap_or_else(|| "down".into());
        let now = run.w.now;
        let rel = |t: Option<u64>| t.map(|t| now as i128 - t as i128);
        for c in run.bchans.iter().chain(run.hchans.iter()) {
            // channel bookkeeping, relative; events already seen matter through the automaton
            s.push_str(&format!("chan {} {} {:?} {:?} {:?} {:?}\n", c.host, c.cache_only, c.timeout_at.map(|t| t as i128 - now as i128), rel(c.ended).map(|x| x.min(10_000_000)), rel(c.replaced).is_some(), rel(c.dropped).is_some()));
        }
        for (ch, _) in run.bchans.iter().enumerate() {
            let evs = bevs(&run.w, 0, ch, 0);
            s.push_str(&format!("bev {:?}\n", evs.iter().map(|(_, e)| (Scn::bname(e), Scn::binst(e))).collect::<Vec<_>>()));
        }
        for (ch, _) in run.hchans.iter().enumerate() {
            let evs = hevs(&run.w, 0, ch, 0);
            s.push_str(&format!("hev {:?}\n", evs.iter().map(|(_, e)| Scn::hname(e)).collect::<Vec<_>>()));
        }
        fnv128(s.as_bytes())
    }
    fn finish(&self, run: &mut Run) {
        if !run.down {
            let t = run.w.now + self.horizon_ms;
            run.w.run_until(t);
        }
        if let Some(f) = daemon_fault(&run.w, 0) {
            if !run.down || f.contains("panicked") || f.contains("park") {
                run.viols.push(viol(format!("C13|daemon-fault|{}", panic_sig(&f)), f));
            }
        }
        self.check_channels(run);
        self.check_wire(run);
        for (t, m, resolver_open) in run.metrics_after_stop.clone() {
            run.counters.push(("metrics_after_stop_checked", 1));
            let g = |k: &str| m.get(k).copied().unwrap_or(0);
            // the one address record that may stay is that of FOO.local, which no browse brought in
            let foo_alive = run.hist.iter().any(|(ht, _, op)| *op == Op::DeliverAddr && *ht <= t && t < *ht + 120_000);
            let _ = resolver_open;
            if g("cached-ptr") != 0 || g("cached-srv") != 0 || g("cached-txt") != 0 || g("cached-addr") > foo_alive as i64 {
                run.viols.push(viol(
                    "C13|cache-not-forgotten-after-stop_browse",
                    format!("stop_browse at +{}: cached ptr {} srv {} txt {} addr {}", t - T0, g("cached-ptr"), g("cached-srv"), g("cached-txt"), g("cached-addr")),
                ));
            }
        }
    }
    fn result(&self, mut run: Run) -> CaseResult {
        let mut r = CaseResult {
            viols: std::mem::take(&mut run.viols),
            transitions: run.w.steps,
            outcome: outcome_hash(&run.w.log),
            nontrivial: !run.bchans.is_empty() || !run.hchans.is_empty(),
            ..Default::default()
        };
        for (k, v) in run.counters.drain(..) {
            r.count(k, v);
        }
        r
    }
}

pub fn check(tier: &str) -> i32 {
    let mut rep = Report::new("C13", tier, "model_checking");
    let thorough = rep.thorough();
    rep.assume("a receiver that was replaced by a later browse/resolve of the same key is only required to see nothing after the search is ended");
    let scn = Scn { horizon_ms: 2 * 3600 * 1000, host: "srvhost" };
    rep.run_bfs(&scn, if thorough { 6 } else { 4 }, Duration::from_secs(if thorough { 3000 } else { 50 }));
    // the same with an SRV target that has capital letters (the address table is keyed in lower case)
    let scn2 = Scn { horizon_ms: 2 * 3600 * 1000, host: "Office-Printer" };
    rep.run_bfs(&scn2, if thorough { 5 } else { 3 }, Duration::from_secs(if thorough { 3000 } else { 50 }));
    rep.require("search-start-stop-sequences", "channels_checked");
    rep.require("search-start-stop-sequences", "search_ends_checked");
    rep.require("search-start-stop-sequences", "metrics_after_stop_checked");
    let fc = FnPart {
        name: "shutdown-with-a-slow-client".into(),
        rule: "as in C14: a browse and a hostname search whose client is behind with reading (0 .. 12 events queued on channels of capacity 10), then shutdown; SearchStopped must still be the last event on every channel".into(),
        n: 6,
        describe: Box::new(|i| format!("k = {}", [0, 3, 8, 9, 10, 12][i as usize])),
        run: Box::new(|i, tr| crate::c14::run_full_channel("C13", [0, 3, 8, 9, 10, 12][i as usize], tr)),
    };
    rep.run_part(&fc, Duration::from_secs(120));
    rep.finish()
}
