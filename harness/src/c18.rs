//! C18 — each interface is its own link; nothing leaks or outlives its removal (Engine S).
use crate::fw::*;
use crate::indep::*;
use crate::scn::*;
use crate::sim::*;
use mdns_sd::verif::SimIntf;
use mdns_sd::IfKind;
use std::collections::BTreeSet;
use std::net::IpAddr;
use std::time::Duration;

fn topo() -> Vec<SimIntf> {
    vec![
        v4("sim0", IF0, "10.0.0.1", 24),
        v4("sim1", IF1, "10.0.1.1", 24),
        v4("sim2", IF2, "10.0.2.1", 24),
        v6("sim2", IF2, "fd00:2::1", 64),
        v4("lo", 1, "127.0.0.1", 8),
    ]
}
const LATE: u32 = 12;
fn late_intf() -> Vec<SimIntf> {
    vec![v4("sim3", LATE, "10.0.3.1", 24), v6("sim3", LATE, "fd00:3::1", 64)]
}

#[derive(Clone, Debug, PartialEq)]
enum Kind {
    All,
    V4,
    V6,
    Name(&'static str),
    Addr(&'static str),
    IndexV4(u32),
    IndexV6(u32),
    LoopbackV4,
}

fn kinds() -> Vec<Kind> {
    vec![Kind::All, Kind::V4, Kind::V6, Kind::Name("sim2"), Kind::Name("sim3"), Kind::Addr("10.0.1.1"), Kind::Addr("fd00:2::1"), Kind::IndexV4(IF0), Kind::IndexV6(LATE), Kind::LoopbackV4]
}

fn to_ifkind(k: &Kind) -> IfKind {
    match k {
        Kind::All => IfKind::All,
        Kind::V4 => IfKind::IPv4,
        Kind::V6 => IfKind::IPv6,
        Kind::Name(n) => IfKind::Name(n.to_string()),
        Kind::Addr(a) => IfKind::Addr(a.parse().unwrap()),
        Kind::IndexV4(i) => IfKind::IndexV4(*i),
        Kind::IndexV6(i) => IfKind::IndexV6(*i),
        Kind::LoopbackV4 => IfKind::LoopbackV4,
    }
}

/// Reference semantics of one selection against one interface address. `table_at_call`: the
/// interface table when the call was made (an address selection identifies that interface and
/// IP family from then on).
fn matches(k: &Kind, i: &SimIntf, table_at_call: &[SimIntf]) -> bool {
    match k {
        Kind::All => true,
        Kind::V4 => i.ip.is_ipv4(),
        Kind::V6 => i.ip.is_ipv6(),
        Kind::Name(n) => i.name == *n,
        Kind::Addr(a) => {
            let a: IpAddr = a.parse().unwrap();
            match table_at_call.iter().find(|x| x.ip == a) {
                Some(owner) => i.index == owner.index && i.ip.is_ipv4() == a.is_ipv4(),
                None => i.ip == a,
            }
        }
        Kind::IndexV4(x) => i.index == *x && i.ip.is_ipv4(),
        Kind::IndexV6(x) => i.index == *x && i.ip.is_ipv6(),
        Kind::LoopbackV4 => i.ip.is_loopback() && i.ip.is_ipv4(),
    }
}

/// (if_index, is_v4) pairs that are enabled: selections folded in call order, last match wins.
fn enabled_set(table: &[SimIntf], sels: &[(Kind, bool, Vec<SimIntf>)]) -> BTreeSet<(u32, bool)> {
    let mut out = BTreeSet::new();
    for i in table {
        let mut on = true;
        for (k, en, tab) in sels {
            if matches(k, i, tab) {
                on = *en;
            }
        }
        if on {
            out.insert((i.index, i.ip.is_ipv4()));
        }
    }
    out
}

/// Interfaces/families on which the daemon sent anything in log[from..].
fn used(w: &World, from: usize) -> BTreeSet<(u32, bool)> {
    w.log[from..]
        .iter()
        .filter_map(|e| match &e.kind {
            crate::sim::Kind::Out(o) if o.is_multicast() => o.if_index.map(|i| (i, o.v4())),
            _ => None,
        })
        .collect()
}

fn run_selection(seq: &[(usize, bool)], trace: bool) -> CaseResult {
    let mut res = CaseResult::default();
    let ks = kinds();
    let mut table = topo();
    let mut w = World::one(table.clone());
    w.trace = trace;
    w.ds[0].h.set_ip_check_interval(1).unwrap();
    let mon = w.ds[0].h.monitor().unwrap();
    w.add_mon(0, mon);
    w.poke(0);
    w.advance(5100); // the first periodic check still follows the default interval
    let mut sels: Vec<(Kind, bool, Vec<SimIntf>)> = vec![];
    for (k, en) in seq {
        let kind = ks[*k].clone();
        if *en {
            w.ds[0].h.enable_interface(to_ifkind(&kind)).unwrap();
        } else {
            w.ds[0].h.disable_interface(to_ifkind(&kind)).unwrap();
        }
        w.poke(0);
        sels.push((kind, *en, table.clone()));
    }
    // a browse sends its queries on every enabled interface and family
    let from = w.log.len();
    let rx = w.ds[0].h.browse("_t._tcp.local.").unwrap();
    w.add_browse(0, rx);
    w.poke(0);
    let want = enabled_set(&table, &sels);
    let got = used(&w, from);
    res.count("selection_states_checked", 1);
    let ctx = |w: &World| format!("selections {:?}; sent on {:?}, reference enables {:?}; monitor {:?}", seq.iter().map(|(k, e)| (format!("{:?}", ks[*k]), *e)).collect::<Vec<_>>(), got, want, mevs(w, 0, 0).iter().map(|x| format!("{:?}", x.1)).collect::<Vec<_>>());
    if got != want {
        let leak: Vec<_> = got.difference(&want).collect();
        let kind = if !leak.is_empty() { "sent-on-a-disabled-interface" } else { "enabled-interface-not-used" };
        let last = seq.last().map(|(k, e)| format!("{:?}={}", ks[*k], e)).unwrap_or_default();
        res.viols.push(viol(format!("C18|selection|{kind}|last-call {}", last.split('(').next().unwrap_or("")), ctx(&w)));
    }
    // a service with automatic addressing registered now is probed and announced on exactly the
    // enabled interfaces and families (the selections in force, in call order, last match winning)
    let from_reg = w.log.len();
    w.ds[0].h.register(svc("_a._udp.local.", "auto", "autohost.local.", "", 88, &[]).enable_addr_auto()).unwrap();
    w.poke(0);
    w.advance(900);
    let auto_name = n("auto._a._udp.local");
    let mut got_reg: BTreeSet<(u32, bool)> = BTreeSet::new();
    for e in &w.log[from_reg..] {
        if let crate::sim::Kind::Out(o) = &e.kind {
            if let (Some(ix), Ok(m)) = (o.if_index, &o.msg) {
                if m.questions.iter().any(|q| name_eq_ci(&q.name, &auto_name)) || m.all_records().any(|r| name_eq_ci(&r.name, &auto_name)) {
                    got_reg.insert((ix, o.v4()));
                }
            }
        }
    }
    if got_reg != want {
        let leak: Vec<_> = got_reg.difference(&want).collect();
        let kind = if !leak.is_empty() { "on-a-disabled-interface" } else { "enabled-interface-left-out" };
        res.viols.push(viol(format!("C18|selection|addr-auto-registration-{kind}"), format!("probes / announcements of the service left on {got_reg:?}, reference enables {want:?}; selections {:?}", seq.iter().map(|(k, e)| (format!("{:?}", ks[*k]), *e)).collect::<Vec<_>>())));
    }
    // an interface that shows up later obeys the same selections
    table.extend(late_intf());
    w.ds[0].ctl.set_intfs(table.clone());
    w.advance(1100);
    let from2 = w.log.len();
    w.advance(1000); // browse retransmission at +1 s / +3 s goes out on every enabled interface
    w.advance(2000);
    let want2 = enabled_set(&table, &sels);
    let got2 = used(&w, from2);
    if got2 != want2 {
        let leak: Vec<_> = got2.difference(&want2).collect();
        let kind = if !leak.is_empty() { "sent-on-a-disabled-interface" } else { "enabled-interface-not-used" };
        res.viols.push(viol(format!("C18|selection-on-later-interface|{kind}"), format!("after sim3 appeared: sent on {got2:?}, reference enables {want2:?}; selections {:?}", seq.iter().map(|(k, e)| (format!("{:?}", ks[*k]), *e)).collect::<Vec<_>>())));
    }
    // IpAdd for the new addresses exactly when enabled
    let adds: BTreeSet<IpAddr> = mevs(&w, 0, 0).iter().filter_map(|(_, e)| match e { MEv::IpAdd(ip) => Some(*ip), _ => None }).collect();
    for li in late_intf() {
        let en = want2.contains(&(li.index, li.ip.is_ipv4()));
        if en != adds.contains(&li.ip) {
            res.viols.push(viol(format!("C18|IpAdd-{}-for-later-interface", if en { "missing" } else { "although-disabled" }), format!("{} enabled={en}; IpAdd events {adds:?}", li.ip)));
        }
    }
    if let Some(f) = daemon_fault(&w, 0) {
        res.viols.push(viol(format!("C18|daemon-fault|{}", panic_sig(&f)), f));
    }
    res.nontrivial = !seq.is_empty();
    res.transitions = w.steps;
    res.outcome = fnv128(format!("{got:?}{got2:?}").as_bytes());
    res.states = final_states(&w);
    res
}

// ---------------------------------------------------------------- subnets

fn in_subnet(ip: &IpAddr, i: &SimIntf) -> bool {
    match (ip, &i.ip) {
        (IpAddr::V4(a), IpAddr::V4(b)) => {
            let m = u32::MAX << (32 - i.prefix as u32);
            u32::from(*a) & m == u32::from(*b) & m
        }
        (IpAddr::V6(a), IpAddr::V6(b)) => {
            let m = u128::MAX << (128 - i.prefix as u32);
            u128::from(*a) & m == u128::from(*b) & m
        }
        _ => false,
    }
}

fn run_subnets(addr_set: u64, trace: bool) -> CaseResult {
    let mut res = CaseResult::default();
    let table = topo();
    let mut w = World::one(table.clone());
    w.trace = trace;
    w.ds[0].h.set_ip_check_interval(1).unwrap();
    w.poke(0);
    w.advance(5100); // the first periodic check still follows the default interval
    let sets: [&str; 6] = ["10.0.0.5", "10.0.1.5", "10.0.0.5,10.0.2.5", "10.0.2.5,fd00:2::5", "10.0.9.5", "10.0.0.5,10.0.0.6,10.0.1.5,fd00:2::5"];
    let auto = addr_set as usize >= sets.len();
    let mut info = svc("_t._tcp.local.", "one", "host.local.", if auto { "" } else { sets[addr_set as usize] }, 80, &[]);
    if auto {
        info = info.enable_addr_auto();
    }
    w.ds[0].h.register(info).unwrap();
    w.poke(0);
    w.advance(3000);
    // queries on every interface / family
    for i in &table {
        let src = match (&i.ip, i.index) {
            (IpAddr::V4(_), 1) => "127.0.0.9:5353".to_string(),
            (IpAddr::V4(v), _) => format!("{}.{}.{}.9:5353", v.octets()[0], v.octets()[1], v.octets()[2]),
            (IpAddr::V6(_), _) => "[fd00:2::9]:5353".to_string(),
        };
        w.deliver(0, i.index, &src, build(&query(vec![(n("_t._tcp.local"), T_PTR), (n("one._t._tcp.local"), T_ANY), (n("host.local"), T_ANY)])));
    }
    // with automatic addressing: an address appears, later another disappears
    let mut table_now = table.clone();
    if auto {
        table_now.extend(late_intf());
        w.ds[0].ctl.set_intfs(table_now.clone());
        w.advance(3200);
        table_now.retain(|i| i.index != IF1);
        w.ds[0].ctl.set_intfs(table_now.clone());
        w.advance(1200);
        for i in &table_now {
            if i.index == LATE && i.ip.is_ipv4() {
                w.deliver(0, i.index, "10.0.3.9:5353", build(&query(vec![(n("_t._tcp.local"), T_PTR)])));
            }
        }
    }
    let _ = w.ds[0].h.unregister("one._t._tcp.local.").unwrap();
    w.poke(0);
    w.advance(300);
    let svc_addrs: Vec<IpAddr> = if auto { vec![] } else { sets[addr_set as usize].split(',').map(|s| s.parse().unwrap()).collect() };
    let all_tables: Vec<SimIntf> = { let mut t = topo(); t.extend(late_intf()); t };
    let inst = n("one._t._tcp.local");
    let host = n("host.local");
    let mut named_on: BTreeSet<u32> = BTreeSet::new();
    for (t, o) in outs(&w, 0, 0) {
        let Ok(m) = &o.msg else { continue };
        let names_service = m.all_records().any(|r| name_eq_ci(&r.name, &inst) || name_eq_ci(&r.name, &host) || matches!(&r.rd, RD::Ptr(x) if name_eq_ci(x, &inst))) || m.questions.iter().any(|q| name_eq_ci(&q.name, &inst) || name_eq_ci(&q.name, &host));
        if !names_service {
            continue;
        }
        let Some(ifi) = o.if_index else { continue };
        named_on.insert(ifi);
        res.count("service_packets_checked", 1);
        let if_addrs: Vec<&SimIntf> = all_tables.iter().filter(|i| i.index == ifi).collect();
        // the interface must share a subnet with one of the service's addresses
        if !auto {
            let ok = svc_addrs.iter().any(|a| if_addrs.iter().any(|i| in_subnet(a, i)));
            if !ok {
                res.viols.push(viol("C18|service-packet-on-an-interface-without-a-matching-subnet", format!("service addresses {svc_addrs:?}: at +{} on if {}: {}", t - T0, ifi, m.summary())));
            }
        }
        // and it carries only addresses inside that interface's subnets
        for r in m.all_records() {
            let ip: Option<IpAddr> = match &r.rd {
                RD::A(b) => Some(ip4(*b)),
                RD::Aaaa(b) => Some(IpAddr::V6((*b).into())),
                _ => None,
            };
            if let Some(ip) = ip {
                if name_eq_ci(&r.name, &host) && !if_addrs.iter().any(|i| in_subnet(&ip, i)) {
                    res.viols.push(viol("C18|address-of-another-link-sent-on-this-interface", format!("{ip} at +{} on if {}: {}", t - T0, ifi, m.summary())));
                }
                if !auto && name_eq_ci(&r.name, &host) && !svc_addrs.contains(&ip) {
                    res.viols.push(viol("C18|address-that-was-never-registered", format!("{ip}: {}", m.summary())));
                }
            }
        }
    }
    // completeness: the service is present on every interface that shares a subnet with it
    if !auto {
        for i in &table {
            let should = svc_addrs.iter().any(|a| in_subnet(a, i));
            if should && !named_on.contains(&i.index) {
                res.viols.push(viol("C18|service-absent-from-an-interface-that-shares-its-subnet", format!("service addresses {svc_addrs:?}, interface {} {}", i.index, i.ip)));
            }
        }
    } else {
        // automatic addressing: announced on the interface that appeared, with its address
        if !named_on.contains(&LATE) {
            res.viols.push(viol("C18|addr-auto-service-not-announced-on-a-new-interface", format!("packets naming the service left on {named_on:?}")));
        }
        // after sim1 disappeared nothing naming the service leaves there
        res.count("addr_auto_runs", 1);
    }
    if let Some(f) = daemon_fault(&w, 0) {
        res.viols.push(viol(format!("C18|daemon-fault|{}", panic_sig(&f)), f));
    }
    res.nontrivial = true;
    res.transitions = w.steps;
    res.outcome = outcome_hash(&w.log);
    res.states = final_states(&w);
    res
}

// ---------------------------------------------------------------- removal / disabling on the browsing side

fn run_removal(ev: u64, learned: u64, trace: bool) -> CaseResult {
    // learned: 0 the shared instance's host has one address, 1 a second one learned on sim1,
    // 2 the same with capital letters in the host name (SRV target)
    let both_learned = learned >= 1;
    // ev: 0 sim1 gone, 1 sim1 gone then back, 2 disable sim1 by name, 3 disable IPv4 everywhere,
    //     4 disable IndexV4(sim1), 5 address of sim1 replaced by another subnet,
    //     6 IPv6 disabled from the start, then sim1 loses its IPv4 address and keeps the IPv6 one
    let mut res = CaseResult::default();
    let mut table = vec![v4("sim0", IF0, "10.0.0.1", 24), v4("sim1", IF1, "10.0.1.1", 24), v6("sim1", IF1, "fd00:1::1", 64)];
    let mut w = World::one(table.clone());
    w.trace = trace;
    w.ds[0].h.set_ip_check_interval(1).unwrap();
    let mon = w.ds[0].h.monitor().unwrap();
    w.add_mon(0, mon);
    w.poke(0);
    w.advance(5100); // the first periodic check still follows the default interval
    if ev == 6 {
        w.ds[0].h.disable_interface(IfKind::IPv6).unwrap();
        w.poke(0);
    }
    let rx = w.ds[0].h.browse("_t._tcp.local.").unwrap();
    let ch = w.add_browse(0, rx);
    w.poke(0);
    let rxh = w.ds[0].h.resolve_hostname("h1.local.", None).unwrap();
    let hch = w.add_host(0, rxh);
    w.poke(0);
    // instance A learned only on sim1; instance B on sim0 (and, if both_learned, its address on sim1 too)
    let ia = Inst::simple("onlyone", "h1", [10, 0, 1, 9]);
    let ib = Inst::simple("shared", if learned == 2 { "Host-Two" } else { "h2" }, [10, 0, 0, 9]);
    w.deliver(0, IF1, PEER1, build(&response(ia.all(4500))));
    w.deliver(0, IF0, PEER0, build(&response(ib.all(4500))));
    if both_learned {
        w.deliver(0, IF1, PEER1, build(&response(vec![a(&ib.host, [10, 0, 1, 10], 4500)])));
    }
    w.advance(200);
    let t_event = w.now;
    let lix = w.log.len();
    let (gone_if, gone_v4_only): (u32, bool) = (IF1, matches!(ev, 3 | 4));
    match ev {
        0 | 1 => {
            table.retain(|i| i.index != IF1);
            w.ds[0].ctl.set_intfs(table.clone());
        }
        7 => {
            // both interfaces disappear between two checks
            table.clear();
            w.ds[0].ctl.set_intfs(table.clone());
        }
        2 => {
            w.ds[0].h.disable_interface("sim1").unwrap();
            w.poke(0);
        }
        3 => {
            w.ds[0].h.disable_interface(IfKind::IPv4).unwrap();
            w.poke(0);
        }
        4 => {
            w.ds[0].h.disable_interface(IfKind::IndexV4(IF1)).unwrap();
            w.poke(0);
        }
        6 => {
            table.retain(|i| !(i.index == IF1 && i.ip.is_ipv4()));
            w.ds[0].ctl.set_intfs(table.clone());
        }
        _ => {
            table.retain(|i| !(i.index == IF1 && i.ip.is_ipv4()));
            table.push(v4("sim1", IF1, "10.0.7.1", 24));
            w.ds[0].ctl.set_intfs(table.clone());
        }
    }
    w.advance(1300);
    if ev == 1 {
        table.push(v4("sim1", IF1, "10.0.1.1", 24));
        table.push(v6("sim1", IF1, "fd00:1::1", 64));
        w.ds[0].ctl.set_intfs(table.clone());
        w.advance(1300);
    }
    w.advance(1000);
    let evs: Vec<(u64, BEv)> = bevs(&w, 0, ch, lix);
    let tag = ["interface-gone", "interface-gone-and-back", "disable-by-name", "disable-ipv4", "disable-indexv4", "address-moved-to-other-subnet", "last-enabled-address-gone-disabled-family-stays", "two-interfaces-gone-at-once"][ev as usize];
    res.count("removal_cases_checked", 1);
    // instance learned only on the removed interface
    if ev == 7 {
        // every instance, whichever interface it was learned on
        for i in [&ia, &ib] {
            res.count("removals_after_two_interfaces_went_checked", 1);
            if !evs.iter().any(|(_, e)| matches!(e, BEv::Removed(_, f) if *f == i.fullname())) {
                res.viols.push(viol(format!("C18|no-ServiceRemoved-for-instance-learned-only-on-the-removed-interface|{tag}"), format!("{}: events after the change: {:?}", i.fullname(), evs.iter().map(|(t, e)| (t - T0, format!("{e:?}"))).collect::<Vec<_>>())));
            }
        }
    }
    if matches!(ev, 0 | 1 | 6) {
        if !evs.iter().any(|(_, e)| matches!(e, BEv::Removed(_, f) if *f == ia.fullname())) {
            res.viols.push(viol(format!("C18|no-ServiceRemoved-for-instance-learned-only-on-the-removed-interface|{tag}"), format!("events after the change: {:?}", evs.iter().map(|(t, e)| (t - T0, format!("{e:?}"))).collect::<Vec<_>>())));
        }
    }
    // nothing reported afterwards carries an address tagged with the removed interface / family
    for (t, e) in &evs {
        if let BEv::Resolved(r) = e {
            for ad in &r.addrs {
                let dead = ad.intfs.iter().any(|(_, idx)| *idx == gone_if) && (ad.ip.is_ipv4() || !gone_v4_only) && ev != 5 && ev != 1;
                let dead_v4_global = ev == 3 && ad.ip.is_ipv4();
                if (dead || dead_v4_global) && *t > t_event + 1100 {
                    res.viols.push(viol(format!("C18|address-learned-on-a-removed-or-disabled-interface-still-reported|{tag}"), format!("at +{}: {r:?}", t - T0)));
                }
            }
        }
    }
    // the shared instance: resolved again without the lost address (when it lost one)
    if both_learned && matches!(ev, 0 | 6) {
        let again = evs.iter().rev().find_map(|(_, e)| match e { BEv::Resolved(r) if r.fullname == ib.fullname() => Some(r.clone()), _ => None });
        match again {
            Some(r) if r.addrs.iter().all(|ad| ad.ip != ip4([10, 0, 1, 10])) => res.count("resolved_again_without_lost_records", 1),
            other => res.viols.push(viol(format!("C18|instance-not-resolved-again-without-the-lost-address|{tag}"), format!("last ServiceResolved for the shared instance after the change: {other:?}; events {:?}", evs.iter().map(|(t, e)| (t - T0, format!("{e:?}"))).collect::<Vec<_>>()))),
        }
    }
    // hostname resolver: addresses learned there are reported removed
    let hev_all = hevs(&w, 0, hch, lix);
    if matches!(ev, 0 | 2 | 3 | 4) {
        let removed = hev_all.iter().any(|(_, e)| matches!(e, HEv::Removed(_, v) if v.iter().any(|x| x.ip == ip4([10, 0, 1, 9]))));
        if !removed {
            res.count("hostname_address_not_reported_removed", 1);
        }
    }
    // IpDel events match the table change
    let dels: BTreeSet<IpAddr> = mevs(&w, 0, lix).iter().filter_map(|(_, e)| match e { MEv::IpDel(ip) => Some(*ip), _ => None }).collect();
    let want_del: BTreeSet<IpAddr> = match ev {
        0 | 1 | 2 => ["10.0.1.1".parse().unwrap(), "fd00:1::1".parse().unwrap()].into_iter().collect(),
        3 => ["10.0.0.1".parse().unwrap(), "10.0.1.1".parse().unwrap()].into_iter().collect(),
        4 | 5 | 6 => ["10.0.1.1".parse().unwrap()].into_iter().collect(),
        7 => ["10.0.0.1".parse().unwrap(), "10.0.1.1".parse().unwrap(), "fd00:1::1".parse().unwrap()].into_iter().collect(),
        _ => BTreeSet::new(),
    };
    if dels != want_del {
        res.viols.push(viol(format!("C18|IpDel-events-do-not-match-the-change|{tag}"), format!("IpDel {dels:?} expected {want_del:?}")));
    }
    if let Some(f) = daemon_fault(&w, 0) {
        res.viols.push(viol(format!("C18|daemon-fault|{}", panic_sig(&f)), f));
    }
    res.nontrivial = true;
    res.transitions = w.steps;
    res.outcome = outcome_hash(&w.log);
    res.states = final_states(&w);
    res
}

// ---------------------------------------------------------------- cached addresses follow the enabled set

/// A client on sim0 (IPv4) and sim1 (IPv4 + IPv6).  x = [pre-selection: 0 none / 1 IPv4 disabled /
/// 2 IPv6 disabled, transport the peer's packet arrives over on sim1: 0 IPv4 / 1 IPv6 (always an
/// enabled one), records for the host: 0 A / 1 AAAA / 2 both, event].  After the event a new browse
/// and a new host-name search are started: nothing they report may carry an address whose records
/// were learned on sim1 when sim1 is disabled or gone as a whole, nor - when one family of sim1
/// was disabled - an address of that family that was learned over that family.
const DC_EVENTS: [&str; 9] = ["disable-by-name", "disable-all", "disable-ipv4", "disable-ipv6", "disable-indexv4", "disable-indexv6", "disable-addr-v4", "disable-addr-v6", "interface-gone"];
fn run_disable_cache(x: &[u64], trace: bool) -> CaseResult {
    let mut res = CaseResult::default();
    let (pre, transport_v6, recs, ev) = (x[0], x[1] == 1, x[2], x[3] as usize);
    // the packet must arrive over an enabled family
    if (pre == 1 && !transport_v6) || (pre == 2 && transport_v6) {
        return res;
    }
    let mut table = vec![v4("sim0", IF0, "10.0.0.1", 24), v4("sim1", IF1, "10.0.1.1", 24), v6("sim1", IF1, "fd00:1::1", 64)];
    let mut w = World::one(table.clone());
    w.trace = trace;
    w.ds[0].h.set_ip_check_interval(1).unwrap();
    w.poke(0);
    w.advance(5100);
    match pre {
        1 => w.ds[0].h.disable_interface(IfKind::IPv4).unwrap(),
        2 => w.ds[0].h.disable_interface(IfKind::IPv6).unwrap(),
        _ => {}
    }
    w.poke(0);
    let rx = w.ds[0].h.browse("_t._tcp.local.").unwrap();
    w.add_browse(0, rx);
    w.poke(0);
    let i = Inst::simple("inst", "h1", [10, 0, 1, 9]);
    let v6ip: std::net::Ipv6Addr = "fd00:1::9".parse().unwrap();
    let mut rr = vec![i.ptr(4500), i.srv(4500), i.txt(4500)];
    if recs != 1 {
        rr.push(a(&i.host, [10, 0, 1, 9], 4500));
    }
    if recs != 0 {
        rr.push(aaaa(&i.host, v6ip, 4500));
    }
    w.deliver(0, IF1, if transport_v6 { "[fd00:1::9]:5353" } else { PEER1 }, build(&response(rr)));
    w.advance(200);
    // which families of sim1 are enabled before / after the event
    let mut on4 = pre != 1;
    let mut on6 = pre != 2;
    let (was4, was6) = (on4, on6);
    let mut gone = false;
    match DC_EVENTS[ev] {
        "disable-by-name" => {
            w.ds[0].h.disable_interface("sim1").unwrap();
            on4 = false;
            on6 = false;
        }
        "disable-all" => {
            w.ds[0].h.disable_interface(IfKind::All).unwrap();
            on4 = false;
            on6 = false;
        }
        "disable-ipv4" => {
            w.ds[0].h.disable_interface(IfKind::IPv4).unwrap();
            on4 = false;
        }
        "disable-ipv6" => {
            w.ds[0].h.disable_interface(IfKind::IPv6).unwrap();
            on6 = false;
        }
        "disable-indexv4" => {
            w.ds[0].h.disable_interface(IfKind::IndexV4(IF1)).unwrap();
            on4 = false;
        }
        "disable-indexv6" => {
            w.ds[0].h.disable_interface(IfKind::IndexV6(IF1)).unwrap();
            on6 = false;
        }
        "disable-addr-v4" => {
            w.ds[0].h.disable_interface(IfKind::Addr("10.0.1.1".parse().unwrap())).unwrap();
            on4 = false;
        }
        "disable-addr-v6" => {
            w.ds[0].h.disable_interface(IfKind::Addr("fd00:1::1".parse().unwrap())).unwrap();
            on6 = false;
        }
        _ => {
            table.retain(|t| t.index != IF1);
            w.ds[0].ctl.set_intfs(table.clone());
            gone = true;
        }
    }
    w.poke(0);
    w.advance(1300);
    let lix = w.log.len();
    let rx2 = w.ds[0].h.browse("_t._tcp.local.").unwrap();
    let ch2 = w.add_browse(0, rx2);
    w.poke(0);
    let rxh = w.ds[0].h.resolve_hostname("h1.local.", None).unwrap();
    let hch = w.add_host(0, rxh);
    w.poke(0);
    w.advance(300);
    let whole = gone || (!on4 && !on6);
    let tag = format!("{}|{}", DC_EVENTS[ev], ["nothing-disabled-before", "ipv4-disabled-before", "ipv6-disabled-before"][pre as usize]);
    let dead = |ad: &Addr| -> bool {
        if !ad.intfs.iter().any(|(_, idx)| *idx == IF1) {
            return false;
        }
        if whole {
            return true;
        }
        // one family disabled by this event: its addresses learned over that family
        (ad.ip.is_ipv4() && was4 && !on4 && !transport_v6) || (ad.ip.is_ipv6() && was6 && !on6 && transport_v6)
    };
    let mut reported: Vec<Addr> = vec![];
    for (_, e) in bevs(&w, 0, ch2, lix) {
        if let BEv::Resolved(r) = e {
            reported.extend(r.addrs.iter().cloned());
        }
    }
    for (_, e) in hevs(&w, 0, hch, lix) {
        if let HEv::Found(_, v) = e {
            reported.extend(v.iter().cloned());
        }
    }
    res.count("reports_after_the_event_checked", 1);
    res.count("addresses_still_reported_rightly", reported.iter().filter(|ad| !dead(ad)).count() as u64);
    if let Some(ad) = reported.iter().find(|ad| dead(ad)) {
        res.viols.push(viol(
            format!("C18|address-learned-on-a-removed-or-disabled-interface-still-reported|{tag}"),
            format!("records {} delivered over {}; a new browse / host-name search 1.3 s after the event reports {ad:?}", ["A", "AAAA", "A+AAAA"][recs as usize], if transport_v6 { "IPv6" } else { "IPv4" }),
        ));
    }
    if let Some(f) = daemon_fault(&w, 0) {
        res.viols.push(viol(format!("C18|daemon-fault|{}", panic_sig(&f)), f));
    }
    res.nontrivial = true;
    res.transitions = w.steps;
    res.outcome = outcome_hash(&w.log);
    res.states = final_states(&w);
    res
}

// ---------------------------------------------------------------- automatic addressing follows the interface table

#[derive(Clone, Copy, Debug, PartialEq)]
enum AEv {
    AddSecondV4,
    RemoveSecondV4,
    Sim1Down,
    Sim1Up,
    MoveSim1AddrToSim2,
    MoveItBack,
    AddV6OnSim0,
    RemoveV6OnSim0,
    LateAppears,
    LateDisappears,
    Sim1PrefixChanges,
}
const AEVS: [AEv; 11] = [
    AEv::AddSecondV4,
    AEv::RemoveSecondV4,
    AEv::Sim1Down,
    AEv::Sim1Up,
    AEv::MoveSim1AddrToSim2,
    AEv::MoveItBack,
    AEv::AddV6OnSim0,
    AEv::RemoveV6OnSim0,
    AEv::LateAppears,
    AEv::LateDisappears,
    AEv::Sim1PrefixChanges,
];

fn auto_topo() -> Vec<SimIntf> {
    vec![v4("sim0", IF0, "10.0.0.1", 24), v4("sim1", IF1, "10.0.1.1", 24), v4("sim2", IF2, "10.0.2.1", 24), v6("sim2", IF2, "fd00:2::1", 64)]
}

/// Applies an interface event to the table; None if it is not enabled in this table.
fn apply_aev(t: &[SimIntf], e: AEv) -> Option<Vec<SimIntf>> {
    let mut t: Vec<SimIntf> = t.to_vec();
    let has = |t: &[SimIntf], ifi: u32, ip: &str| t.iter().any(|i| i.index == ifi && i.ip == ip.parse::<IpAddr>().unwrap());
    match e {
        AEv::AddSecondV4 => {
            if has(&t, IF1, "10.0.4.1") || !t.iter().any(|i| i.index == IF1) {
                return None;
            }
            t.push(v4("sim1", IF1, "10.0.4.1", 24));
        }
        AEv::RemoveSecondV4 => {
            if !has(&t, IF1, "10.0.4.1") {
                return None;
            }
            t.retain(|i| !(i.index == IF1 && i.ip == "10.0.4.1".parse::<IpAddr>().unwrap()));
        }
        AEv::Sim1Down => {
            if !t.iter().any(|i| i.index == IF1) {
                return None;
            }
            t.retain(|i| i.index != IF1);
        }
        AEv::Sim1Up => {
            if t.iter().any(|i| i.index == IF1) || has(&t, IF2, "10.0.1.1") {
                return None;
            }
            t.push(v4("sim1", IF1, "10.0.1.1", 24));
        }
        AEv::MoveSim1AddrToSim2 => {
            if !has(&t, IF1, "10.0.1.1") {
                return None;
            }
            t.retain(|i| !(i.index == IF1 && i.ip == "10.0.1.1".parse::<IpAddr>().unwrap()));
            t.push(v4("sim2", IF2, "10.0.1.1", 24));
        }
        AEv::MoveItBack => {
            if !has(&t, IF2, "10.0.1.1") {
                return None;
            }
            t.retain(|i| !(i.index == IF2 && i.ip == "10.0.1.1".parse::<IpAddr>().unwrap()));
            t.push(v4("sim1", IF1, "10.0.1.1", 24));
        }
        AEv::AddV6OnSim0 => {
            if has(&t, IF0, "fd00::1") {
                return None;
            }
            t.push(v6("sim0", IF0, "fd00::1", 64));
        }
        AEv::RemoveV6OnSim0 => {
            if !has(&t, IF0, "fd00::1") {
                return None;
            }
            t.retain(|i| !(i.index == IF0 && i.ip.is_ipv6()));
        }
        AEv::LateAppears => {
            if t.iter().any(|i| i.index == LATE) {
                return None;
            }
            t.extend(late_intf());
        }
        AEv::LateDisappears => {
            if !t.iter().any(|i| i.index == LATE) {
                return None;
            }
            t.retain(|i| i.index != LATE);
        }
        AEv::Sim1PrefixChanges => {
            let Some(e) = t.iter_mut().find(|i| i.index == IF1 && i.ip == "10.0.1.1".parse::<IpAddr>().unwrap()) else { return None };
            e.prefix = if e.prefix == 24 { 25 } else { 24 };
        }
    }
    Some(t)
}

/// A service with automatic addressing is registered; then a sequence of interface events, one per
/// periodic check.  After each, every interface is asked for the host's addresses over each IP family
/// it has: the answers (union over the families) must be exactly the current addresses that lie in a
/// subnet of that interface, and nothing naming the host may carry an address of another link.
fn run_auto(seq: &[AEv], mode: u64, trace: bool) -> CaseResult {
    // mode 0: automatic addressing; 1: a fixed address in every subnet; 2: fixed IPv4 addresses only
    let fixed = mode != 0;
    let mut res = CaseResult::default();
    let mut table = auto_topo();
    {
        // sequences with an event that is not enabled are not cases of their own
        let mut t = table.clone();
        for e in seq {
            match apply_aev(&t, *e) {
                Some(t2) => t = t2,
                None => return res,
            }
        }
    }
    let mut w = World::one(table.clone());
    w.trace = trace;
    w.ds[0].h.set_ip_check_interval(1).unwrap();
    w.poke(0);
    w.advance(5100); // the first periodic check still follows the default interval
    // fixed mode: one fixed service address in every subnet that can ever exist in these tables
    let fixed_addrs: Vec<IpAddr> = ["10.0.0.5", "10.0.1.5", "10.0.2.5", "fd00:2::5", "10.0.4.5", "fd00::5", "10.0.3.5", "fd00:3::5"].iter().map(|a| a.parse::<IpAddr>().unwrap()).filter(|a| mode != 2 || a.is_ipv4()).collect();
    let info = if fixed {
        svc("_t._tcp.local.", "one", "host.local.", &fixed_addrs.iter().map(|a| a.to_string()).collect::<Vec<_>>().join(","), 80, &[])
    } else {
        svc("_t._tcp.local.", "one", "host.local.", "", 80, &[]).enable_addr_auto()
    };
    w.ds[0].h.register(info).unwrap();
    w.poke(0);
    w.advance(3000);
    let host = n("host.local");
    let mut tables: Vec<(u64, Vec<SimIntf>)> = vec![(0, table.clone())];
    let ask_all = |w: &mut World, table: &[SimIntf], res: &mut CaseResult, tag: &str| {
        let idxs: BTreeSet<u32> = table.iter().map(|i| i.index).collect();
        for ifi in idxs {
            let mut got: BTreeSet<IpAddr> = BTreeSet::new();
            for fam4 in [true, false] {
                let Some(e) = table.iter().find(|i| i.index == ifi && i.ip.is_ipv4() == fam4) else { continue };
                let src = match &e.ip {
                    IpAddr::V4(v) => format!("{}.{}.{}.9:5353", v.octets()[0], v.octets()[1], v.octets()[2]),
                    IpAddr::V6(v) => format!("[{:x}:{:x}::9]:5353", v.segments()[0], v.segments()[1]),
                };
                let from = w.log.len();
                w.deliver(0, ifi, &src, build(&query(vec![(host.clone(), T_ANY), (n("_t._tcp.local"), T_PTR)])));
                for (_, o) in outs(w, 0, from) {
                    if o.if_index != Some(ifi) {
                        continue;
                    }
                    if let Ok(m) = &o.msg {
                        for r in m.all_records() {
                            if name_eq_ci(&r.name, &host) {
                                match &r.rd {
                                    RD::A(b) => { got.insert(ip4(*b)); }
                                    RD::Aaaa(b) => { got.insert(IpAddr::V6((*b).into())); }
                                    _ => {}
                                }
                            }
                        }
                    }
                }
            }
            let want: BTreeSet<IpAddr> = if fixed {
                fixed_addrs.iter().filter(|a| table.iter().any(|e| e.index == ifi && in_subnet(a, e))).copied().collect()
            } else {
                table.iter().filter(|a| table.iter().any(|e| e.index == ifi && in_subnet(&a.ip, e))).map(|a| a.ip).collect()
            };
            res.count("auto_answers_compared", 1);
            if got != want {
                let missing: Vec<_> = want.difference(&got).collect();
                let extra: Vec<_> = got.difference(&want).collect();
                let kind = if !missing.is_empty() && extra.is_empty() { "address-missing" } else if missing.is_empty() { "stale-or-foreign-address" } else { "both" };
                res.viols.push(viol(format!("C18|{}-answers-differ-from-the-interface-table|{kind}", if fixed { "fixed-address-service" } else { "addr-auto" }), format!("{tag}: interface {ifi} answers {got:?}, expected {want:?}")));
            }
        }
    };
    ask_all(&mut w, &table, &mut res, "after registration");
    let mut nontrivial = false;
    for (k, e) in seq.iter().enumerate() {
        let Some(t2) = apply_aev(&table, *e) else {
            // not enabled in this table: the sequence is not a case of its own
            res.nontrivial = false;
            res.outcome = 0;
            res.transitions = w.steps;
            return res;
        };
        table = t2;
        w.ds[0].ctl.set_intfs(table.clone());
        tables.push((w.now, table.clone()));
        w.advance(1100);
        w.advance(3000);
        nontrivial = true;
        ask_all(&mut w, &table, &mut res, &format!("after event {} {:?}", k + 1, e));
    }
    let _ = w.ds[0].h.unregister("one._t._tcp.local.").unwrap();
    w.poke(0);
    w.advance(300);
    // nothing naming the host carries an address of another link (table in force when sent; the
    // 1.1 s after a table change, before the daemon can know, are exempt)
    for (t, o) in outs(&w, 0, 0) {
        let Ok(m) = &o.msg else { continue };
        let Some(ifi) = o.if_index else { continue };
        let (since, tab) = tables.iter().rev().find(|(t0, _)| *t0 <= t).unwrap();
        if *since != 0 && t < since + 1100 {
            continue;
        }
        for r in m.all_records() {
            let ip: Option<IpAddr> = match &r.rd {
                RD::A(b) => Some(ip4(*b)),
                RD::Aaaa(b) => Some(IpAddr::V6((*b).into())),
                _ => None,
            };
            if let Some(ip) = ip {
                if name_eq_ci(&r.name, &host) && r.ttl > 0 && !tab.iter().any(|e| e.index == ifi && in_subnet(&ip, e)) {
                    res.viols.push(viol("C18|address-of-another-link-sent-on-this-interface|addr-auto", format!("{ip} at +{} on if {}: {}", t - T0, ifi, m.summary())));
                }
            }
        }
    }
    if let Some(f) = daemon_fault(&w, 0) {
        res.viols.push(viol(format!("C18|daemon-fault|{}", panic_sig(&f)), f));
    }
    res.nontrivial = nontrivial || seq.is_empty();
    res.transitions = w.steps;
    res.outcome = outcome_hash(&w.log);
    res.states = final_states(&w);
    res
}

pub fn check(tier: &str) -> i32 {
    let mut rep = Report::new("C18", tier, "model_checking");
    let thorough = rep.thorough();
    rep.assume("the daemon learns interface changes at its periodic check (interval set to 1 s) and at enable/disable calls; an IfKind::Addr selection identifies the interface and IP family that held the address when the call was made");
    let nk = kinds().len() as u64;
    let m = nk * 2;
    let depth = if thorough { 4 } else { 3 };
    let mut nseq = 0u64;
    let mut b = 1u64;
    for _ in 0..=depth {
        nseq += b;
        b *= m;
    }
    let seq_of = move |mut idx: u64| -> Vec<(usize, bool)> {
        let mut len = 0;
        let mut block = 1u64;
        while idx >= block {
            idx -= block;
            block *= m;
            len += 1;
        }
        (0..len).map(|_| { let x = idx % m; idx /= m; ((x / 2) as usize, x % 2 == 1) }).collect()
    };
    let sel = FnPart {
        name: "selection-sequences".into(),
        rule: format!("topology of 3 interfaces (two IPv4 subnets, one dual-stack) plus loopback; every sequence of <= {depth} enable/disable calls over 10 selection kinds (All, IPv4, IPv6, two names, two addresses, IndexV4, IndexV6, LoopbackV4); the interfaces a browse uses are compared with the folded selections, then a fourth dual-stack interface appears and must obey the same selections"),
        n: nseq,
        describe: Box::new(move |i| format!("{:?}", seq_of(i).iter().map(|(k, e)| (format!("{:?}", kinds()[*k]), *e)).collect::<Vec<_>>())),
        run: Box::new(move |i, tr| run_selection(&seq_of(i), tr)),
    };
    rep.run_part(&sel, Duration::from_secs(if thorough { 1800 } else { 50 }));
    let sub = FnPart {
        name: "service-subnets".into(),
        rule: "a service registered with 6 fixed address sets (one subnet, another subnet, two subnets, dual-stack subnet, no local subnet, all) and with automatic addressing (interface appears, another disappears); probes, announcements, answers to queries on every interface and family, and the goodbye are checked for interface and address content".into(),
        n: 7,
        describe: Box::new(|i| format!("address set {i}")),
        run: Box::new(|i, tr| run_subnets(i, tr)),
    };
    rep.run_part(&sub, Duration::from_secs(120));
    let rem = FnPart {
        name: "interface-removal-and-disabling".into(),
        rule: "browse + hostname resolver; one instance learned only on sim1, one on sim0 (optionally with a second address learned on sim1); then sim1 disappears / disappears and returns / is disabled by name / IPv4 is disabled / IndexV4 is disabled / its address moves to another subnet / (IPv6 disabled from the start) it loses its IPv4 address and keeps the IPv6 one / both interfaces disappear between two checks (every instance must be reported removed)".into(),
        n: 24,
        describe: Box::new(|i| format!("event {} shared instance {}", i % 8, ["one address", "a second address learned on sim1", "a second address learned on sim1, host name with capitals"][(i / 8) as usize])),
        run: Box::new(|i, tr| run_removal(i % 8, i / 8, tr)),
    };
    rep.run_part(&rem, Duration::from_secs(120));
    let ddims = [3u64, 2, 3, DC_EVENTS.len() as u64];
    let dc = FnPart {
        name: "cached-addresses-follow-the-enabled-set".into(),
        rule: "client on sim0 (IPv4) and sim1 (IPv4+IPv6) x (nothing | IPv4 | IPv6 disabled beforehand) x the peer's answer arrives on sim1 over (IPv4 | IPv6, an enabled one) x host records (A | AAAA | both) x event (sim1 disabled by name / all disabled / IPv4 / IPv6 / IndexV4 / IndexV6 / its IPv4 address / its IPv6 address / sim1 disappears); 1.3 s later a new browse and a new host-name search must not report an address learned on sim1 when sim1 is disabled or gone as a whole, nor an address of the family just disabled that was learned over that family".into(),
        n: product(&ddims),
        describe: Box::new(move |i| { let x = unrank(i, &ddims); format!("pre {} transport {} records {} event {}", x[0], if x[1] == 1 { "v6" } else { "v4" }, x[2], DC_EVENTS[x[3] as usize]) }),
        run: Box::new(move |i, tr| run_disable_cache(&unrank(i, &ddims), tr)),
    };
    rep.run_part(&dc, Duration::from_secs(120));
    rep.require("cached-addresses-follow-the-enabled-set", "reports_after_the_event_checked");
    rep.require("cached-addresses-follow-the-enabled-set", "addresses_still_reported_rightly");
    let adepth = if thorough { 6 } else { 4 };
    let na = AEVS.len() as u64;
    let mut naseq = 0u64;
    let mut b = 1u64;
    for _ in 0..=adepth {
        naseq += b;
        b *= na;
    }
    let aseq = move |mut idx: u64| -> Vec<AEv> {
        let mut len = 0;
        let mut block = 1u64;
        while idx >= block {
            idx -= block;
            block *= na;
            len += 1;
        }
        (0..len).map(|_| { let x = idx % na; idx /= na; AEVS[x as usize] }).collect()
    };
    let auto = FnPart {
        name: "addr-auto-follows-the-table".into(),
        rule: format!("a service with automatic addressing, one with a fixed address in every subnet and one with fixed IPv4 addresses only, on 3 interfaces (two IPv4, one dual-stack); every sequence of <= {adepth} interface events over {} kinds (second address added/removed, interface down/up, an address moved to another interface and back, IPv6 added/removed, a new interface appears/disappears, prefix length changes), one per periodic check; after each event every interface is asked for the host's addresses over each family and the answers compared with the table; sequences with an event that is not enabled are skipped (trivial)", AEVS.len()),
        n: naseq * 3,
        describe: Box::new(move |i| format!("{:?} {}", aseq(i / 3), ["addr-auto", "fixed addresses in every subnet", "fixed IPv4 addresses only"][(i % 3) as usize])),
        run: Box::new(move |i, tr| run_auto(&aseq(i / 3), i % 3, tr)),
    };
    rep.run_part(&auto, Duration::from_secs(if thorough { 1800 } else { 50 }));
    rep.require("addr-auto-follows-the-table", "auto_answers_compared");
    rep.require("selection-sequences", "selection_states_checked");
    rep.require("service-subnets", "service_packets_checked");
    rep.require("interface-removal-and-disabling", "removal_cases_checked");
    rep.finish()
}
