//! C11 — records live for their TTL, refresh at 80/85/90/95 %, obey cache-flush (Engines L + S).
use crate::fw::*;
use crate::indep::*;
use crate::scn::*;
use crate::sim::*;
use mdns_sd::verif::{self, life::Life};
use std::panic::{catch_unwind, AssertUnwindSafe};
use std::time::Duration;

// ---------------------------------------------------------------- L

/// Observation instants (ms after creation) for a TTL: around every mark, half life and expiry.
fn instants(ttl: u32) -> Vec<u64> {
    let life = ttl as u64 * 1000;
    let mut v = vec![0u64, 1];
    for pct in [50u64, 80, 85, 90, 95, 100] {
        let m = life * pct / 100;
        v.extend([m.saturating_sub(1), m, m + 1]);
    }
    v.push(life + 1500);
    v.sort_unstable();
    v.dedup();
    v
}

/// Index -> ordered subset (combination) of size 1..=3 of 0..n.
fn combo(n: usize, mut idx: u64) -> Vec<usize> {
    let c1 = n as u64;
    let c2 = (n * (n - 1) / 2) as u64;
    if idx < c1 {
        return vec![idx as usize];
    }
    idx -= c1;
    if idx < c2 {
        // pair (i<j)
        let mut i = 0usize;
        let mut rem = idx;
        loop {
            let row = (n - 1 - i) as u64;
            if rem < row {
                return vec![i, i + 1 + rem as usize];
            }
            rem -= row;
            i += 1;
        }
    }
    idx -= c2;
    let mut cnt = 0u64;
    for i in 0..n {
        for j in i + 1..n {
            let row = (n - 1 - j) as u64;
            if idx < cnt + row {
                return vec![i, j, j + 1 + (idx - cnt) as usize];
            }
            cnt += row;
        }
    }
    unreachable!()
}

fn combos(n: usize) -> u64 {
    (n + n * (n - 1) / 2 + n * (n - 1) * (n - 2) / 6) as u64
}

const BIG_TTLS: [u32; 4] = [1 << 16, 1 << 24, 0x7FFF_FFFF, 0xFFFF_FFFF];

fn run_l(ttl: u32, sel: &[usize], reset_after: usize) -> CaseResult {
    let mut res = CaseResult { nontrivial: true, ..Default::default() };
    let inst = instants(ttl);
    let c0: u64 = T0;
    let r = catch_unwind(AssertUnwindSafe(|| {
        let mut viols: Vec<Viol> = vec![];
        verif::set_thread_clock(Some(c0));
        let mut rec = Life::new(ttl);
        let mut created = c0;
        let mut fires = 0u32;
        let mut prev_obs: Option<u64> = None;
        let mut trace = vec![];
        for (k, &ix) in sel.iter().enumerate() {
            let x = created + inst[ix];
            if prev_obs.is_some_and(|p| x < p) {
                break; // after a reset the relative instant may lie in the past: stop here
            }
            let life = ttl as u64 * 1000;
            let e = created + life;
            let marks: Vec<u64> = if ttl > 1 || created == c0 {
                [80u64, 85, 90, 95].iter().map(|p| created + life * p / 100).collect()
            } else {
                vec![]
            };
            // lifetime predicates
            let exp = rec.is_expired(x);
            if x < e && exp {
                viols.push(viol("C11|L|record-expired-before-its-ttl", format!("ttl {ttl} age {} ms", x - created)));
            }
            if x > e && !exp {
                viols.push(viol("C11|L|record-not-expired-after-its-ttl", format!("ttl {ttl} age {} ms", x - created)));
            }
            let half = created + life / 2;
            let hp = rec.halflife_passed(x);
            if (x > half + 1 && !hp) || (x + 1 < half && hp) {
                viols.push(viol("C11|L|halflife-wrong", format!("ttl {ttl} age {} ms -> {hp}", x - created)));
            }
            if exp && !rec.expires_soon(x) {
                viols.push(viol("C11|L|expired-but-not-expiring-soon", format!("ttl {ttl} age {} ms", x - created)));
            }
            // refresh
            let fired = rec.refresh_maybe(x);
            trace.push((x - created, fired));
            let passed = marks.iter().filter(|m| **m <= x).count() as u32;
            let newly = marks.iter().any(|m| *m <= x && prev_obs.map_or(true, |p| *m > p));
            if fired {
                fires += 1;
                if x >= e {
                    viols.push(viol("C11|L|refresh-at-or-after-expiry", format!("ttl {ttl} trace {trace:?}")));
                }
                if fires > passed {
                    viols.push(viol("C11|L|refresh-more-than-once-per-mark", format!("ttl {ttl}: {fires} refreshes, {passed} marks passed, trace {trace:?}")));
                }
            } else if x < e && newly && ttl > 1 {
                viols.push(viol("C11|L|no-refresh-although-a-mark-was-passed", format!("ttl {ttl} trace {trace:?}")));
            }
            prev_obs = Some(x);
            if reset_after == k + 1 {
                // a fresh copy of the record arrives now
                verif::set_thread_clock(Some(x));
                let fresh = Life::new(ttl);
                rec.reset_ttl(&fresh);
                created = x;
                fires = 0;
                prev_obs = None;
                trace.push((0, false));
                if rec.expire_time() != x + life {
                    viols.push(viol("C11|L|reset-does-not-restart-lifetime", format!("ttl {ttl}: expires {} want {}", rec.expire_time() - x, life)));
                }
            }
        }
        verif::set_thread_clock(None);
        (viols, trace)
    }));
    match r {
        Ok((v, trace)) => {
            res.viols = v;
            res.outcome = fnv128(format!("{trace:?}").as_bytes());
            res.transitions = trace.len() as u64;
            res.count("refreshes_fired", trace.iter().filter(|t| t.1).count() as u64);
        }
        Err(_) => {
            verif::set_thread_clock(None);
            let p = take_panic().unwrap_or_default();
            res.viols.push(viol(format!("C11|L|panic|{}", panic_sig(&p)), format!("ttl {ttl} sel {sel:?}: {p}")));
        }
    }
    res
}

// ---------------------------------------------------------------- S: refresh schedule

/// answers: bitmask of marks (0..4) at which the refresh query is answered with a fresh copy.
fn run_refresh(ttl: u32, answer_mask: u32, variant: u64, trace: bool) -> CaseResult {
    // variant 1: the host has two addresses, and something unrelated wakes the daemon between the marks
    let mut res = CaseResult::default();
    let mut w = World::one(lay_v4());
    w.trace = trace;
    w.ds[0].h.set_ip_check_interval(3600).unwrap();
    w.poke(0);
    let rx = w.ds[0].h.browse("_t._tcp.local.").unwrap();
    let ch = w.add_browse(0, rx);
    w.poke(0);
    w.advance(100);
    let mut i = Inst::simple("inst", "h", [10, 0, 0, 9]);
    if variant == 1 {
        i.v4.push([10, 0, 0, 10]);
        i.v6.push("fd00::9".parse().unwrap());
    }
    let life = ttl as u64 * 1000;
    let unrelated = build(&response(vec![ptr(&n("_z._udp.local"), &n("other._z._udp.local"), 120)]));
    let mut arrival = w.now;
    w.deliver(0, IF0, PEER0, build(&response(i.all(ttl))));
    // walk the marks; after an answered mark the schedule restarts
    let mut expected_refresh_times: Vec<(u64, bool)> = vec![]; // (time, must be SRV/TXT/A refresh)
    let mut answered_once = 0;
    'outer: loop {
        for (k, pct) in [80u64, 85, 90, 95].iter().enumerate() {
            let m = arrival + life * pct / 100;
            w.run_until(m);
            expected_refresh_times.push((m, ttl > 1));
            if variant == 1 && !(answer_mask & (1 << k) != 0 && answered_once < 2) {
                // an unrelated packet two hundredths of the life later: between this mark and the next
                w.run_until(m + life * 2 / 100);
                w.deliver(0, IF0, PEER0, unrelated.clone());
                res.count("wakeups_between_marks", 1);
            }
            if answer_mask & (1 << k) != 0 && answered_once < 2 {
                answered_once += 1;
                // the responder answers the refresh query with fresh copies
                arrival = w.now;
                w.deliver(0, IF0, PEER0, build(&response(i.all(ttl))));
                continue 'outer;
            }
        }
        break;
    }
    let expiry = arrival + life;
    w.run_until(expiry + 2500);
    let all = outs(&w, 0, 0);
    let asks_inst = |m: &Msg| -> bool {
        !m.is_response() && (asks(m, &i.inst, T_SRV) || asks(m, &i.inst, T_TXT) || asks(m, &i.host, T_A))
    };
    let refresh_q: Vec<u64> = all.iter().filter(|(_, o)| o.msg.as_ref().is_ok_and(asks_inst)).map(|(t, _)| *t).collect();
    if ttl > 1 {
        for (m, _) in &expected_refresh_times {
            res.count("marks_checked", 1);
            for (nm, qt, label) in [(&i.inst, T_SRV, "SRV"), (&i.inst, T_TXT, "TXT"), (&i.host, T_A, "A"), (&i.ty, T_PTR, "PTR")] {
                let ok = all.iter().any(|(t, o)| t == m && o.msg.as_ref().is_ok_and(|mm| !mm.is_response() && asks(mm, nm, qt)));
                if !ok {
                    res.viols.push(viol(
                        format!("C11|S|no-refresh-query-at-mark|{label}"),
                        format!("ttl {ttl} mask {answer_mask:#b}: no {label} question at +{} (marks {:?}); record questions seen at {:?}", m - T0, expected_refresh_times.iter().map(|x| x.0 - T0).collect::<Vec<_>>(), refresh_q.iter().map(|t| t - T0).collect::<Vec<_>>()),
                    ));
                }
            }
        }
    }
    // never a refresh query for the records at or after expiry, and none between marks
    for t in &refresh_q {
        if *t >= expiry {
            res.viols.push(viol("C11|S|record-query-at-or-after-expiry", format!("ttl {ttl}: question at +{} expiry +{}", t - T0, expiry - T0)));
        } else if !expected_refresh_times.iter().any(|(m, _)| m == t) {
            res.viols.push(viol("C11|S|refresh-query-off-the-marks", format!("ttl {ttl} mask {answer_mask:#b}: question at +{} marks {:?}", t - T0, expected_refresh_times.iter().map(|x| x.0 - T0).collect::<Vec<_>>())));
        }
    }
    // removal exactly at expiry of the last copy
    let removed: Vec<u64> = bevs(&w, 0, ch, 0).iter().filter(|(_, e)| matches!(e, BEv::Removed(..))).map(|(t, _)| *t).collect();
    if removed.first() != Some(&expiry) {
        res.viols.push(viol("C11|S|service-not-removed-at-ttl", format!("ttl {ttl} mask {answer_mask:#b}: ServiceRemoved at {:?}, last copy arrived +{} expiry +{}", removed.iter().map(|t| t - T0).collect::<Vec<_>>(), arrival - T0, expiry - T0)));
    } else {
        res.count("removal_at_ttl", 1);
    }
    if let Some(f) = daemon_fault(&w, 0) {
        res.viols.push(viol("C11|daemon-fault", f));
    }
    res.nontrivial = true;
    res.transitions = w.steps;
    res.outcome = outcome_hash(&w.log);
    res.states = final_states(&w);
    res
}

// ---------------------------------------------------------------- S: refresh of a resolved host's address

/// A host-name search is open and one address record of TTL `ttl` (>= 2) arrives.  obs: 0 the daemon
/// is woken exactly when it asked to be; 1..=4 its next wake-up after the record arrived comes late,
/// at 82 / 90 / 97 / 99.9 % of the record's life (the marks before that are skipped); `answered`: a fresh
/// copy arrives with the refresh query, or 300 ms before the 80 % mark; `v6`: the record is an AAAA.
/// The refresh query is told from the search's own repeated query on the wire: it asks the one
/// record type only, the search asks A and AAAA together.
fn run_host_refresh(ttl: u32, obs: u64, answered: u64, v6: bool, trace: bool) -> CaseResult {
    let mut res = CaseResult::default();
    let mut w = World::one(if v6 { lay_dual() } else { lay_v4() });
    w.trace = trace;
    w.ds[0].h.set_ip_check_interval(0).unwrap();
    w.poke(0);
    let rx = w.ds[0].h.resolve_hostname("h.local.", None).unwrap();
    let ch = w.add_host(0, rx);
    w.poke(0);
    w.advance(130);
    let host = n("h.local");
    let life = ttl as u64 * 1000;
    let rec = || if v6 { aaaa(&host, "fd00::9".parse().unwrap(), ttl) } else { a(&host, [10, 0, 0, 9], ttl) };
    let src = if v6 { PEER0_V6 } else { PEER0 };
    let qt = if v6 { T_AAAA } else { T_A };
    let mut arrival = w.now;
    w.deliver(0, IF0, src, build(&response(vec![rec()])));
    // (copy arrival, first observation at or after its 80 % mark)
    let mut copies: Vec<(u64, u64)> = vec![];
    let late = |arr: u64| arr + [0, life * 82 / 100, life * 90 / 100, life * 97 / 100, life * 999 / 1000][obs as usize];
    let first_obs = |arr: u64| if obs == 0 { arr + life * 80 / 100 } else { late(arr) };
    if answered == 2 {
        // a fresh copy shortly before the mark: the schedule restarts from it
        w.run_until(arrival + life * 80 / 100 - 300);
        arrival = w.now;
        w.deliver(0, IF0, src, build(&response(vec![rec()])));
    }
    let o = first_obs(arrival);
    if obs == 0 {
        w.run_until(o);
    } else {
        w.set_now(o);
        w.poke(0);
    }
    copies.push((arrival, o));
    if answered == 1 {
        // the responder answers the refresh query
        arrival = w.now;
        w.deliver(0, IF0, src, build(&response(vec![rec()])));
        let o = arrival + life * 80 / 100;
        w.run_until(o);
        copies.push((arrival, o));
    }
    let expiry = arrival + life;
    w.run_until(expiry + 2500);
    let all = outs(&w, 0, 0);
    // (every question goes out once per IP family of the interface: the copies over one family are counted)
    let refresh_q: Vec<u64> = all.iter().filter(|(_, o)| o.dst.is_ipv6() == v6 && o.msg.as_ref().is_ok_and(|m| !m.is_response() && m.questions.len() == 1 && asks(m, &host, qt))).map(|(t, _)| *t).collect();
    let ctx = format!("ttl {ttl} obs {obs} answered {answered} v6 {v6}: single-type questions at {:?}; copies (arrival, first observation past 80 %) {:?}; expiry +{}", refresh_q.iter().map(|t| t - T0).collect::<Vec<_>>(), copies.iter().map(|c| (c.0 - T0, c.1 - T0)).collect::<Vec<_>>(), expiry - T0);
    for (k, (arr, o)) in copies.iter().enumerate() {
        res.count("host_marks_checked", 1);
        let n_at = refresh_q.iter().filter(|t| *t == o).count();
        if n_at == 0 {
            let last_second = *o + 1000 >= arr + life;
            res.viols.push(viol(format!("C11|S|no-refresh-query-for-a-resolved-host-address|{}", if ttl <= 5 { "ttl-up-to-5s" } else if last_second { "first-observation-in-the-last-second" } else { "other" }), ctx.clone()));
        }
        // once per copy
        let upto = copies.get(k + 1).map_or(expiry, |c| c.0);
        let n_life = refresh_q.iter().filter(|t| **t > *arr && **t < upto && **t != *o).count() + n_at.saturating_sub(1);
        if n_life > 0 {
            res.viols.push(viol("C11|S|host-address-refreshed-more-than-once-or-off-the-mark", ctx.clone()));
        }
    }
    if refresh_q.iter().any(|t| *t >= expiry) {
        res.viols.push(viol("C11|S|record-query-at-or-after-expiry", ctx.clone()));
    }
    // the address is reported removed exactly at the expiry of the last copy
    let removed: Vec<u64> = hevs(&w, 0, ch, 0).iter().filter(|(_, e)| matches!(e, HEv::Removed(..))).map(|(t, _)| *t).collect();
    if removed != vec![expiry] {
        res.viols.push(viol("C11|S|host-address-not-removed-at-ttl", format!("AddressesRemoved at {:?}; {ctx}", removed.iter().map(|t| t - T0).collect::<Vec<_>>())));
    } else {
        res.count("host_removal_at_ttl", 1);
    }
    if let Some(f) = daemon_fault(&w, 0) {
        res.viols.push(viol("C11|daemon-fault", f));
    }
    res.nontrivial = true;
    res.transitions = w.steps;
    res.outcome = outcome_hash(&w.log);
    res.states = final_states(&w);
    res
}

// ---------------------------------------------------------------- S: cache flush on the records of a browsed instance

/// Browse on two interfaces; an instance is learned on the first; later a changed SRV (other port)
/// or TXT arrives.  x = [0 SRV / 1 TXT, 0 on the same interface / 1 on the other one, gap index,
/// cache-flush bit].  For these record types the interface does not matter: with the bit and more
/// than a second between them the older record is gone one second after the new one arrived.
fn run_flush_service(x: &[u64], trace: bool) -> CaseResult {
    let mut res = CaseResult::default();
    let mut w = World::one(lay_two());
    w.trace = trace;
    w.ds[0].h.set_ip_check_interval(0).unwrap();
    w.poke(0);
    let rx = w.ds[0].h.browse("_t._tcp.local.").unwrap();
    let ch = w.add_browse(0, rx);
    w.poke(0);
    w.advance(100);
    let i = Inst::simple("inst", "h", [10, 0, 0, 9]);
    w.deliver(0, IF0, PEER0, build(&response(i.all(120))));
    let gap = [500u64, 1500, 3000][x[2] as usize];
    w.advance(gap);
    let mut newrec = if x[0] == 0 { srv(&i.inst, &i.host, 8080, 120) } else { txt(&i.inst, &[3, b'n', b'=', b'2'], 120) };
    newrec.flush = x[3] == 1;
    let (ifi, src) = if x[1] == 0 { (IF0, PEER0) } else { (IF1, PEER1) };
    let t_new = w.now;
    w.deliver(0, ifi, src, build(&response(vec![newrec])));
    w.advance(1100);
    let counter = if x[0] == 0 { "cached-srv" } else { "cached-txt" };
    let have = w.metrics(0).and_then(|m| m.get(counter).copied()).unwrap_or(-1);
    let displaced = x[3] == 1 && gap > 1000;
    let want = if displaced { 1 } else { 2 };
    let ctx = format!("{} with the cache-flush bit {} arrives on the {} interface {gap} ms after the first copy; 1.1 s later {counter} = {have}", if x[0] == 0 { "SRV (other port)" } else { "TXT (other data)" }, if x[3] == 1 { "set" } else { "clear" }, if x[1] == 0 { "same" } else { "other" });
    if displaced {
        res.count("service_record_displacements_expected", 1);
    } else {
        res.count("service_record_kept_expected", 1);
    }
    if have != want {
        let sig = if have > want { "C11|S|flushed-service-record-not-removed-one-second-after-the-flush" } else { "C11|S|service-record-removed-although-not-displaced" };
        res.viols.push(viol(format!("{sig}|{}|{}", if x[0] == 0 { "SRV" } else { "TXT" }, if x[1] == 0 { "same-interface" } else { "other-interface" }), ctx.clone()));
    }
    // what the client is told afterwards uses the new record
    if displaced && x[0] == 0 {
        w.deliver(0, IF0, PEER0, build(&response(vec![txt(&i.inst, &[3, b'z', b'=', b'9'], 120)])));
        let last = bevs(&w, 0, ch, 0).iter().rev().find_map(|(t, e)| match e { BEv::Resolved(r) if *t > t_new + 1000 => Some(r.port), _ => None });
        if last.is_some_and(|p| p != 8080) {
            res.viols.push(viol("C11|S|displaced-record-still-used", format!("{ctx}; a ServiceResolved after that shows port {last:?}")));
        }
    }
    if let Some(f) = daemon_fault(&w, 0) {
        res.viols.push(viol("C11|daemon-fault", f));
    }
    res.nontrivial = true;
    res.transitions = w.steps;
    res.outcome = outcome_hash(&w.log);
    res.states = final_states(&w);
    res
}

// ---------------------------------------------------------------- S: cache flush on addresses

const GAPS: [u64; 6] = [0, 500, 1000, 1001, 2000, 3000];

fn run_flush(x: &[u64], trace: bool) -> CaseResult {
    // x = [gap1, f1, f2, other_intf2, third (0 none, 1 same burst as 2nd +300ms, 2 later +1500), f3,
    //      family of the 2nd record (0 A, 1 AAAA), family of the 3rd]
    let mut res = CaseResult::default();
    let mut w = World::one(lay_two());
    w.trace = trace;
    w.ds[0].h.set_ip_check_interval(3600).unwrap();
    w.poke(0);
    let rx = w.ds[0].h.resolve_hostname("h.local.", None).unwrap();
    let ch = w.add_host(0, rx);
    w.poke(0);
    w.advance(50);
    let host = n("h.local");
    let addr_of = |ip: u8, v6: bool| -> std::net::IpAddr {
        if v6 { format!("fd00::{ip}").parse().unwrap() } else { ip4([10, 0, 0, ip]) }
    };
    let mk = |ip: u8, fl: bool, v6: bool| {
        let mut r = if v6 { aaaa(&host, format!("fd00::{ip}").parse().unwrap(), 120) } else { a(&host, [10, 0, 0, ip], 120) };
        r.flush = fl;
        build(&response(vec![r]))
    };
    let (fam2, fam3) = (x[6] == 1, x[7] == 1);
    // arrivals: (time, ip, flush, interface, AAAA?)
    let mut arr: Vec<(u64, u8, bool, u32, bool)> = vec![];
    let t1 = w.now;
    arr.push((t1, 11, x[1] == 1, IF0, false));
    w.deliver(0, IF0, PEER0, mk(11, x[1] == 1, false));
    w.advance(GAPS[x[0] as usize]);
    let if2 = if x[3] == 1 { IF1 } else { IF0 };
    let src2 = if x[3] == 1 { PEER1 } else { PEER0 };
    arr.push((w.now, 12, x[2] == 1, if2, fam2));
    w.deliver(0, if2, src2, mk(12, x[2] == 1, fam2));
    if x[4] > 0 {
        w.advance(if x[4] == 1 { 300 } else { 1500 });
        arr.push((w.now, 13, x[5] == 1, if2, fam3));
        w.deliver(0, if2, src2, mk(13, x[5] == 1, fam3));
    }
    let end = w.now + 6000;
    w.run_until(end);
    // reference: when is each address displaced?  Only by a later cache-flush record of the same
    // name AND type, learned on the same interface, more than one second after it.
    let mut want_removed: Vec<(std::net::IpAddr, Option<u64>)> = vec![];
    for (k, (tk, ip, _, ifk, famk)) in arr.iter().enumerate() {
        let mut cut: Option<u64> = None;
        for (tj, _, fj, ifj, famj) in arr.iter().skip(k + 1) {
            if *fj && ifj == ifk && famj == famk && *tj > *tk + 1000 {
                let c = tj + 1000;
                cut = Some(cut.map_or(c, |x: u64| x.min(c)));
            }
        }
        want_removed.push((addr_of(*ip, *famk), cut));
    }
    let evs = hevs(&w, 0, ch, 0);
    for (addr, cut) in want_removed {
        let ip = addr;
        let removed_at: Vec<u64> = evs
            .iter()
            .filter(|(_, e)| matches!(e, HEv::Removed(_, v) if v.iter().any(|a| a.ip == addr)))
            .map(|(t, _)| *t)
            .collect();
        let ctx = format!("arrivals (time, ip, flush, interface, AAAA) {:?}", arr.iter().map(|(t, ip, f, i, v6)| (t - T0, ip, f, i, v6)).collect::<Vec<_>>());
        match cut {
            Some(c) => {
                res.count("displacements_expected", 1);
                if removed_at != vec![c] {
                    res.viols.push(viol("C11|S|flushed-address-not-removed-one-second-after-the-flush", format!("{ip}: removed at {:?}, expected +{}; {ctx}", removed_at.iter().map(|t| t - T0).collect::<Vec<_>>(), c - T0)));
                }
            }
            None => {
                res.count("kept_expected", 1);
                if !removed_at.is_empty() {
                    let why = if arr.iter().any(|(_, _, f, _, _)| *f) { "same-burst-or-other-interface-or-other-type-or-self" } else { "no-flush-at-all" };
                    res.viols.push(viol(format!("C11|S|address-removed-although-not-displaced|{why}"), format!("{ip}: removed at {:?}; {ctx}", removed_at.iter().map(|t| t - T0).collect::<Vec<_>>())));
                }
            }
        }
    }
    if let Some(f) = daemon_fault(&w, 0) {
        res.viols.push(viol("C11|daemon-fault", f));
    }
    res.nontrivial = true;
    res.transitions = w.steps;
    res.outcome = outcome_hash(&w.log);
    res.states = final_states(&w);
    res
}

pub fn check(tier: &str) -> i32 {
    let mut rep = Report::new("C11", tier, "model_checking");
    let thorough = rep.thorough();
    rep.assume("exactly at T+TTL and exactly at half life the verdict is a don't-care; a record exactly 1000 ms old counts as same burst");
    let nmax: u32 = if thorough { 20_000 } else { 600 };
    let mut ttls: Vec<u32> = (1..=nmax).collect();
    ttls.extend(BIG_TTLS);
    // every TTL has at most 21 instants -> index space per TTL is combos(21) x 3 reset variants
    let per = combos(21) * 3;
    let l = FnPart {
        name: "L-lifetime-and-refresh".into(),
        rule: format!("every TTL 1..{nmax} plus 2^16, 2^24, 2^31-1, 2^32-1 x every ordered subset of <= 3 of the instants {{0, 1, each of 50/80/85/90/95/100 % -1/0/+1, after expiry}} as observation times x fresh copy arriving after none / the 1st / the 2nd observation"),
        n: ttls.len() as u64 * per,
        describe: Box::new(|i| {
            let ttl = ttls[(i / per) as usize];
            let r = i % per;
            let n = instants(ttl).len();
            let c = (r / 3) % combos(n);
            format!("ttl {} observe instants {:?} of {:?} reset_after {}", ttl, combo(n, c), instants(ttl), r % 3)
        }),
        run: Box::new(|i, _| {
            let ttl = ttls[(i / per) as usize];
            let r = i % per;
            let n = instants(ttl).len();
            if r / 3 >= combos(n) {
                return CaseResult::default(); // fewer distinct instants for tiny TTLs
            }
            run_l(ttl, &combo(n, r / 3), (r % 3) as usize)
        }),
    };
    rep.run_part(&l, Duration::from_secs(if thorough { 1800 } else { 40 }));

    let s_ttls: Vec<u32> = if thorough { vec![1, 2, 3, 5, 10, 20, 60, 120] } else { vec![1, 2, 5, 10] };
    let ns = s_ttls.len() as u64;
    let st = s_ttls.clone();
    let refresh = FnPart {
        name: "S-refresh-schedule".into(),
        rule: "browse; full record set with TTL t; the refresh query at each of the four marks is answered with fresh copies or not (all 16 patterns, at most two answers honoured) x (one address, undisturbed | three addresses of the host and an unrelated packet waking the daemon between the marks); queries on the wire and the removal event compared with the marks".into(),
        n: ns * 32,
        describe: Box::new(move |i| format!("ttl {} answered-marks mask {:#06b} variant {}", st[(i % ns) as usize], (i / ns) % 16, i / ns / 16)),
        run: Box::new(move |i, tr| run_refresh(s_ttls[(i % ns) as usize], ((i / ns) % 16) as u32, i / ns / 16, tr)),
    };
    rep.run_part(&refresh, Duration::from_secs(300));

    let h_ttls: Vec<u32> = if thorough { vec![2, 3, 4, 5, 6, 7, 10, 20, 60, 120, 4500, 86_400] } else { vec![2, 3, 5, 6, 10, 120] };
    let hdims = [h_ttls.len() as u64, 5, 3, 2];
    let hostr = FnPart {
        name: "S-refresh-of-a-resolved-host-address".into(),
        rule: format!("host-name search; one address record with TTL in {h_ttls:?} x the daemon's first wake-up after the 80 % mark comes (on time | late, at 82 / 90 / 97 / 99.9 % of the life) x (no answer | the refresh query is answered with a fresh copy | a fresh copy arrives 300 ms before the mark) x (A | AAAA); exactly one question for just that record type at the first observation past the mark of each copy, none at or after expiry, AddressesRemoved exactly at the expiry of the last copy"),
        n: product(&hdims),
        describe: Box::new({ let h = h_ttls.clone(); move |i| { let x = unrank(i, &hdims); format!("ttl {} obs {} answered {} v6 {}", h[x[0] as usize], x[1], x[2], x[3]) } }),
        run: Box::new({ let h = h_ttls.clone(); move |i, tr| { let x = unrank(i, &hdims); run_host_refresh(h[x[0] as usize], x[1], x[2], x[3] == 1, tr) } }),
    };
    rep.run_part(&hostr, Duration::from_secs(300));
    rep.require("S-refresh-of-a-resolved-host-address", "host_marks_checked");
    rep.require("S-refresh-of-a-resolved-host-address", "host_removal_at_ttl");

    let sdims = [2u64, 2, 3, 2];
    let fs = FnPart {
        name: "S-cache-flush-of-service-records".into(),
        rule: "browse on two interfaces, an instance learned on the first; a changed (SRV | TXT) arrives on (the same | the other) interface 0.5 / 1.5 / 3 s later, cache-flush bit (clear | set); 1.1 s after it the cache holds one record of that type iff the bit was set and more than a second lay between them, two otherwise; a later ServiceResolved shows the new port".into(),
        n: product(&sdims),
        describe: Box::new(move |i| format!("{:?}", unrank(i, &sdims))),
        run: Box::new(move |i, tr| run_flush_service(&unrank(i, &sdims), tr)),
    };
    rep.run_part(&fs, Duration::from_secs(120));
    rep.require("S-cache-flush-of-service-records", "service_record_displacements_expected");
    rep.require("S-cache-flush-of-service-records", "service_record_kept_expected");

    let dims = [GAPS.len() as u64, 2, 2, 2, 3, 2, 2, 2];
    let flush = FnPart {
        name: "S-cache-flush".into(),
        rule: "hostname resolver; 2-3 address records of one name arrive with gaps {0, 500, 1000, 1001, 2000, 3000} ms, flush bit on each either way, second/third on the same or another interface and of the same type (A) or the other (AAAA); AddressesRemoved compared with the displacement rule".into(),
        n: product(&dims),
        describe: Box::new(move |i| format!("{:?}", unrank(i, &dims))),
        run: Box::new(move |i, tr| run_flush(&unrank(i, &dims), tr)),
    };
    rep.run_part(&flush, Duration::from_secs(300));
    rep.require("L-lifetime-and-refresh", "refreshes_fired");
    rep.require("S-refresh-schedule", "marks_checked");
    rep.require("S-refresh-schedule", "removal_at_ttl");
    rep.require("S-cache-flush", "displacements_expected");
    rep.require("S-cache-flush", "kept_expected");
    rep.finish()
}
