//! C10 — known answers suppress exactly what they should, on both sides (Engines L + S).
use crate::fw::*;
use crate::indep::*;
use crate::scn::*;
use crate::sim::*;
use mdns_sd::verif::wire;
use std::time::Duration;

// ---------------------------------------------------------------- L: the predicate

fn l_records() -> Vec<wire::Rec> {
    vec![
        wire::Rec::new("_t._tcp.local.", 1, 0, wire::RData::Ptr("i._t._tcp.local.".into())),
        wire::Rec::new("i._t._tcp.local.", 0x8001, 0, wire::RData::Srv { priority: 0, weight: 0, port: 80, host: "h.local.".into() }),
        wire::Rec::new("i._t._tcp.local.", 0x8001, 0, wire::RData::Txt(b"\x03a=b".to_vec())),
        wire::Rec::new("h.local.", 0x8001, 0, wire::RData::A("10.0.0.5".parse().unwrap())),
        wire::Rec::new("h.local.", 0x8001, 0, wire::RData::Aaaa("fd00::5".parse().unwrap())),
    ]
}

fn l_variant(r: &wire::Rec, v: u64) -> wire::Rec {
    // 0 same, 1 other owner, 2 other class, 3 other rdata
    let mut k = r.clone();
    match v {
        1 => k.name = format!("x{}", k.name),
        2 => k.class = 3,
        3 => {
            k.rdata = match &k.rdata {
                wire::RData::Ptr(_) => wire::RData::Ptr("j._t._tcp.local.".into()),
                wire::RData::Srv { priority, weight, host, .. } => wire::RData::Srv { priority: *priority, weight: *weight, port: 81, host: host.clone() },
                wire::RData::Txt(_) => wire::RData::Txt(b"\x03a=c".to_vec()),
                wire::RData::A(_) => wire::RData::A("10.0.0.6".parse().unwrap()),
                wire::RData::Aaaa(_) => wire::RData::Aaaa("fd00::6".parse().unwrap()),
                other => other.clone(),
            }
        }
        _ => {}
    }
    k
}

const MY_TTLS: [u32; 8] = [1, 2, 3, 119, 120, 121, 4500, 4501];

fn known_ttls(mine: u32) -> Vec<u32> {
    let h = mine / 2;
    vec![0, 1, h.saturating_sub(1), h, h + 1, mine, u32::MAX]
}

fn l_case(i: u64) -> (wire::Rec, wire::Rec, u64, bool) {
    let recs = l_records();
    let x = unrank(i, &[recs.len() as u64, MY_TTLS.len() as u64, 7, 4, 2]);
    let mut mine = recs[x[0] as usize].clone();
    mine.ttl = MY_TTLS[x[1] as usize];
    let mut known = l_variant(&mine, x[3]);
    known.ttl = known_ttls(mine.ttl)[x[2] as usize];
    // flush bit on the known answer: 0 = cleared (what RFC 6762 10.2 tells queriers to send),
    // 1 = copied from the responder's record
    if x[4] == 0 {
        known.flush = false;
    }
    (mine, known, x[3], x[4] == 0)
}

fn run_l(i: u64) -> CaseResult {
    let mut res = CaseResult { nontrivial: true, transitions: 1, ..Default::default() };
    let (mine, known, variant, rfc_flush) = l_case(i);
    let got = match std::panic::catch_unwind(std::panic::AssertUnwindSafe(|| wire::suppressed_by_answer(&mine, &known))) {
        Ok(g) => g,
        Err(_) => {
            let p = take_panic().unwrap_or_default();
            res.viols.push(viol(format!("C10|L|panic|{}", panic_sig(&p)), format!("mine {mine:?} known {known:?}: {p}")));
            return res;
        }
    };
    res.outcome = got as u128 + 2 * variant as u128;
    let same = variant == 0;
    // compare 2*known with mine to avoid rounding: above half / below half / exactly half
    let twice = known.ttl as u64 * 2;
    let want: Option<bool> = if !same {
        Some(false)
    } else if twice > mine.ttl as u64 {
        Some(true)
    } else if twice < mine.ttl as u64 {
        Some(false)
    } else {
        None
    };
    res.count(if got { "suppressed" } else { "not_suppressed" }, 1);
    if let Some(w) = want {
        if got != w {
            let sig = if w && !got && rfc_flush && mine.flush {
                "C10|L|same-record-above-half-not-suppressed|known-answer-without-cache-flush-bit".to_string()
            } else if w {
                "C10|L|same-record-above-half-not-suppressed".to_string()
            } else if same {
                "C10|L|suppressed-by-answer-below-half-ttl".to_string()
            } else {
                format!("C10|L|suppressed-by-different-record|variant{variant}")
            };
            res.viols.push(viol(sig, format!("mine {mine:?} known {known:?} -> suppressed={got}")));
        }
    }
    res
}

// ---------------------------------------------------------------- S: responder side

fn ka_ttls(full: u32) -> [u32; 7] {
    let h = full / 2;
    [0, 1, h - 1, h, h + 1, full, u32::MAX]
}

/// One live announced service; every question x every known-answer assignment.
fn run_responder(layout_dual: bool, rfc_flush: bool, trace: bool) -> CaseResult {
    let mut res = CaseResult::default();
    let intfs = if layout_dual { lay_dual() } else { lay_v4() };
    let ips = if layout_dual { "10.0.0.5,fd00::5" } else { "10.0.0.5" };
    let mut w = World::one(intfs);
    w.trace = trace;
    w.ds[0].h.set_ip_check_interval(3600).unwrap();
    w.ds[0].h.register(svc("_s._sub._t._tcp.local.", "one", "host.local.", ips, 80, &[("k", "v")])).unwrap();
    w.poke(0);
    w.advance(3000);
    let ty = n("_t._tcp.local");
    let sub = n("_s._sub._t._tcp.local");
    let inst = n("one._t._tcp.local");
    let host = n("host.local");
    // the service's records as the responder sends them
    let recs: Vec<Record> = vec![
        ptr(&ty, &inst, 4500),
        srv(&inst, &host, 80, 120),
        txt(&inst, &txt_rdata(&[(b"k", Some(b"v"))]), 4500),
        a(&host, [10, 0, 0, 5], 120),
    ];
    let questions: Vec<(Name, u16, Vec<usize>)> = vec![
        // (name, qtype, indices of records that are *answers* to it)
        (ty.clone(), T_PTR, vec![0]),
        (inst.clone(), T_SRV, vec![1]),
        (inst.clone(), T_TXT, vec![2]),
        (inst.clone(), T_ANY, vec![1, 2]),
        (host.clone(), T_A, vec![3]),
        (host.clone(), T_ANY, vec![3]),
        (sub.clone(), T_PTR, vec![]),
    ];
    // each record: absent or listed with one of 7 TTLs
    let dims = [8u64, 8, 8, 8];
    for qi in 0..questions.len() {
        for k in 0..product(&dims) {
            let x = unrank(k, &dims);
            let mut m = query(vec![(questions[qi].0.clone(), questions[qi].1)]);
            for (ri, &opt) in x.iter().enumerate() {
                if opt > 0 {
                    let mut r = recs[ri].clone();
                    r.ttl = ka_ttls(recs[ri].ttl)[(opt - 1) as usize];
                    if rfc_flush {
                        r.flush = false;
                    }
                    m.answers.push(r);
                }
            }
            let from = w.log.len();
            w.deliver(0, IF0, PEER0, build(&m));
            res.transitions += 1;
            let sent: Vec<&Out> = w.log[from..].iter().filter_map(|e| match &e.kind { Kind::Out(o) => Some(o), _ => None }).collect();
            let resp: Option<&Msg> = sent.first().and_then(|o| o.msg.as_ref().ok());
            let ctx = || format!("question {} t{} with known answers {:?}", show_name(&questions[qi].0), questions[qi].1, m.answers.iter().map(|r| r.summary()).collect::<Vec<_>>());
            for &ri in &questions[qi].2 {
                let r = &recs[ri];
                let listed = x[ri];
                let verdict: Option<bool> = if listed == 0 {
                    Some(false)
                } else {
                    let kt = ka_ttls(r.ttl)[(listed - 1) as usize] as u64 * 2;
                    if kt > r.ttl as u64 { Some(true) } else if kt < r.ttl as u64 { Some(false) } else { None }
                };
                let present_as_answer = resp.is_some_and(|m| m.answers.iter().any(|x| x.rtype == r.rtype && name_eq_ci(&x.name, &r.name) && x.rd == r.rd));
                let present_anywhere = resp.is_some_and(|m| m.all_records().any(|x| x.rtype == r.rtype && name_eq_ci(&x.name, &r.name) && x.rd == r.rd));
                match verdict {
                    Some(true) => {
                        res.count("suppression_expected", 1);
                        if present_as_answer {
                            let why = if rfc_flush && r.flush { "known-answer-without-cache-flush-bit" } else { "same-record" };
                            res.viols.push(viol(format!("C10|responder|answer-not-suppressed|{why}|type{}", r.rtype), format!("{} -> {}", ctx(), resp.map(|m| m.summary()).unwrap_or_default())));
                        }
                        if ri == 0 && questions[qi].1 == T_PTR && resp.is_some() {
                            // a suppressed PTR takes its additionals with it
                            res.viols.push(viol("C10|responder|response-although-the-only-answer-was-suppressed", format!("{} -> {}", ctx(), resp.unwrap().summary())));
                        }
                    }
                    Some(false) => {
                        res.count("answer_expected", 1);
                        if !present_anywhere {
                            res.viols.push(viol(format!("C10|responder|answer-missing-although-not-suppressed|type{}", r.rtype), format!("{} -> {}", ctx(), resp.map(|m| m.summary()).unwrap_or_else(|| "no response".into()))));
                        }
                    }
                    None => res.count("exact_half_dont_care", 1),
                }
            }
        }
    }
    if let Some(f) = daemon_fault(&w, 0) {
        res.viols.push(viol("C10|daemon-fault", f));
    }
    res.nontrivial = true;
    res.outcome = outcome_hash(&w.log);
    res.states = final_states(&w);
    res
}

// ---------------------------------------------------------------- S: several records under one name and type

/// Two instances of one type on a host with two addresses: the type has two PTRs and the host two
/// A records.  A question for the rrset comes with every assignment of {absent, listed stale, listed
/// fresh} to its two records and to a third record of the same name and type that is not ours, in
/// every order of the known-answer list.  Each of our records must be left out iff it is listed fresh.
fn run_rrsets(trace: bool) -> CaseResult {
    let mut res = CaseResult::default();
    let mut w = World::one(lay_v4());
    w.trace = trace;
    w.ds[0].h.set_ip_check_interval(3600).unwrap();
    // (alpha is registered under a subtype: a subtype PTR is among the additionals its PTR brings)
    for (nm, ty) in [("alpha", "_s._sub._t._tcp.local."), ("beta", "_t._tcp.local.")] {
        w.ds[0].h.register(svc(ty, nm, "host.local.", "10.0.0.5,10.0.0.6", 80, &[])).unwrap();
        w.poke(0);
    }
    w.advance(4000);
    let ty = n("_t._tcp.local");
    let host = n("host.local");
    let sets: Vec<(Name, u16, Vec<Record>, Record)> = vec![
        (ty.clone(), T_PTR, vec![ptr(&ty, &n("alpha._t._tcp.local"), 4500), ptr(&ty, &n("beta._t._tcp.local"), 4500)], ptr(&ty, &n("gamma._t._tcp.local"), 4500)),
        (host.clone(), T_A, vec![a(&host, [10, 0, 0, 5], 120), a(&host, [10, 0, 0, 6], 120)], a(&host, [10, 0, 0, 77], 120)),
    ];
    const PERMS: [[usize; 3]; 6] = [[0, 1, 2], [0, 2, 1], [1, 0, 2], [1, 2, 0], [2, 0, 1], [2, 1, 0]];
    for (qn, qt, ours, foreign) in &sets {
        for k in 0..27u64 {
            let x = unrank(k, &[3, 3, 3]); // 0 absent, 1 stale (TTL 1), 2 fresh (full TTL)
            for perm in PERMS {
                let mut m = query(vec![(qn.clone(), *qt)]);
                for &slot in &perm {
                    let (rec, st) = if slot < 2 { (&ours[slot], x[slot]) } else { (foreign, x[2]) };
                    if st > 0 {
                        let mut r = rec.clone();
                        r.flush = false;
                        r.ttl = if st == 1 { 1 } else { rec.ttl };
                        m.answers.push(r);
                    }
                }
                let from = w.log.len();
                w.deliver(0, IF0, PEER0, build(&m));
                res.transitions += 1;
                let resp: Option<&Msg> = w.log[from..].iter().find_map(|e| match &e.kind { Kind::Out(o) => o.msg.as_ref().ok(), _ => None });
                let ctx = || format!("question {} t{} with known answers {:?} -> {}", show_name(qn), qt, m.answers.iter().map(|r| r.summary()).collect::<Vec<_>>(), resp.map(|m| m.summary()).unwrap_or_else(|| "no response".into()));
                for (slot, r) in ours.iter().enumerate() {
                    let present = resp.is_some_and(|m| m.answers.iter().any(|y| y.rtype == r.rtype && name_eq_ci(&y.name, &r.name) && y.rd == r.rd));
                    if x[slot] == 2 {
                        res.count("rrset_suppression_expected", 1);
                        if present {
                            res.viols.push(viol(format!("C10|responder|answer-not-suppressed|one-of-several-records-of-the-name-and-type|type{}", r.rtype), ctx()));
                        }
                        // a suppressed PTR takes what it would have brought with it: nothing in the
                        // response may name that instance
                        if let RD::Ptr(target) = &r.rd {
                            if let Some(stray) = resp.and_then(|m| m.all_records().find(|y| name_eq_ci(&y.name, target) || matches!(&y.rd, RD::Ptr(t) if name_eq_ci(t, target)))) {
                                if !present {
                                    res.viols.push(viol("C10|responder|additionals-of-a-suppressed-answer-still-sent", format!("{}: {}", ctx(), stray.summary())));
                                }
                            }
                        }
                    } else {
                        res.count("rrset_answer_expected", 1);
                        if !present {
                            res.viols.push(viol(format!("C10|responder|answer-missing-although-not-suppressed|one-of-several-records-of-the-name-and-type|type{}", r.rtype), ctx()));
                        }
                    }
                }
                if x[0] == 2 && x[1] == 2 && *qt == T_PTR && resp.is_some() {
                    res.viols.push(viol("C10|responder|response-although-the-only-answer-was-suppressed", ctx()));
                }
            }
        }
    }
    if let Some(f) = daemon_fault(&w, 0) {
        res.viols.push(viol("C10|daemon-fault", f));
    }
    res.nontrivial = true;
    res.outcome = outcome_hash(&w.log);
    res.states = final_states(&w);
    res
}

// ---------------------------------------------------------------- S: querier side

fn run_querier(ttl: u32, two_intf: bool, late: bool, trace: bool) -> CaseResult {
    let mut res = CaseResult::default();
    let intfs = if two_intf { lay_two() } else { lay_v4() };
    let ifs: Vec<u32> = if two_intf { vec![IF0, IF1] } else { vec![IF0] };
    let mut w = World::one(intfs);
    w.trace = trace;
    w.ds[0].h.set_ip_check_interval(3600).unwrap();
    w.poke(0);
    let rx = w.ds[0].h.browse("_t._tcp.local.").unwrap();
    w.add_browse(0, rx);
    w.poke(0);
    w.advance(if late { 1500 } else { 200 });
    let i = Inst::simple("inst", "h", [10, 0, 0, 9]);
    let arrival = w.now;
    // next to the ordinary (shared) PTR a peer's PTR that carries the cache-flush bit: unique records
    // are never listed as known answers, whatever their type
    let mut recs = i.all(ttl);
    let mut uniq = ptr(&i.ty, &n("uniq._t._tcp.local"), ttl);
    uniq.flush = true;
    recs.push(uniq);
    w.deliver(0, IF0, PEER0, build(&response(recs)));
    w.run_until(arrival + ttl as u64 * 1000 + 2000);
    let all = outs(&w, 0, 0);
    let life = ttl as u64 * 1000;
    for (t, o) in all.iter().filter(|(t, _)| *t > arrival) {
        let Ok(m) = &o.msg else { continue };
        if m.is_response() {
            continue;
        }
        res.count("queries_inspected", 1);
        let age = t - arrival;
        // every query leaves on every interface
        for &ifi in &ifs {
            if !all.iter().any(|(t2, o2)| t2 == t && o2.if_index == Some(ifi) && o2.msg.as_ref().is_ok_and(|m2| m2.questions == m.questions)) {
                res.viols.push(viol("C10|querier|query-not-sent-on-every-interface", format!("at +{} {} missing on if {}", t - T0, m.summary(), ifi)));
            }
        }
        for ka in &m.answers {
            if ka.flush || ka.rtype != T_PTR {
                res.viols.push(viol(format!("C10|querier|unique-record-listed-as-known-answer|type{}", ka.rtype), format!("at +{}: {}", t - T0, m.summary())));
                continue;
            }
            if age >= life {
                res.viols.push(viol("C10|querier|expired-record-listed-as-known-answer", format!("age {age} ttl {ttl}: {}", m.summary())));
                continue;
            }
            if age * 2 > life {
                res.viols.push(viol("C10|querier|known-answer-with-less-than-half-ttl-left", format!("age {age} ms of ttl {ttl} s: {}", m.summary())));
            }
            let rem = life - age;
            let (lo, hi) = ((rem / 1000) as u32, rem.div_ceil(1000) as u32);
            if ka.ttl != lo && ka.ttl != hi {
                res.viols.push(viol("C10|querier|known-answer-ttl-is-not-the-remaining-ttl", format!("age {age} ms of ttl {ttl} s: listed ttl {} expected {lo} or {hi}", ka.ttl)));
            }
            res.count("known_answers_checked", 1);
        }
        // completeness: a held shared record with more than half its life left is listed
        if asks(m, &i.ty, T_PTR) && age * 2 < life && m.answers.is_empty() {
            res.viols.push(viol("C10|querier|young-shared-record-not-listed", format!("age {age} ms of ttl {ttl} s: {}", m.summary())));
        }
    }
    if let Some(f) = daemon_fault(&w, 0) {
        res.viols.push(viol("C10|daemon-fault", f));
    }
    res.nontrivial = true;
    res.transitions = w.steps;
    res.outcome = outcome_hash(&w.log);
    res.states = final_states(&w);
    res
}

pub fn check(tier: &str) -> i32 {
    let mut rep = Report::new("C10", tier, "model_checking");
    let thorough = rep.thorough();
    rep.assume("a known answer whose TTL is exactly half of the responder's TTL is a don't-care");
    rep.assume("known answers are sent the way RFC 6762 section 10.2 requires: without the cache-flush bit (the variant with the bit copied is enumerated too)");
    let nl = product(&[l_records().len() as u64, MY_TTLS.len() as u64, 7, 4, 2]);
    let l = FnPart {
        name: "L-suppressed_by_answer".into(),
        rule: "record type x responder TTL x known TTL (0, 1, half-1, half, half+1, full, max) x {same, other owner, other class, other RDATA} x flush bit on the known answer {clear, copied}".into(),
        n: nl,
        describe: Box::new(|i| format!("{:?}", l_case(i))),
        run: Box::new(|i, _| run_l(i)),
    };
    rep.run_part(&l, Duration::from_secs(60));
    let resp = FnPart {
        name: "S-responder".into(),
        rule: "one announced service on a live daemon; 7 questions x every assignment of {absent, 7 TTL values} to its PTR, SRV, TXT and A record as known answers (4096) x flush bit on known answers {clear, copied} x layout".into(),
        n: 4,
        describe: Box::new(|i| format!("dual={} rfc_flush={}", i / 2 == 1, i % 2 == 0)),
        run: Box::new(|i, tr| run_responder(i / 2 == 1, i % 2 == 0, tr)),
    };
    rep.run_part(&resp, Duration::from_secs(300));
    let rr = FnPart {
        name: "S-responder-several-records-per-name".into(),
        rule: "two instances of one type on a host with two addresses; the PTR question for the type and the A question for the host, each with every assignment of {absent, listed with TTL 1, listed with the full TTL} to our two records of that name and type and to a third one that is not ours (27) x every order of the known-answer list (6); each of our records is left out iff it is listed fresh".into(),
        n: 1,
        describe: Box::new(|_| "all 2 x 27 x 6 queries on one daemon".into()),
        run: Box::new(|_, tr| run_rrsets(tr)),
    };
    rep.run_part(&rr, Duration::from_secs(120));
    rep.require("S-responder-several-records-per-name", "rrset_suppression_expected");
    rep.require("S-responder-several-records-per-name", "rrset_answer_expected");
    let ttls: Vec<u32> = if thorough { (2..=120).collect() } else { (2..=20).collect() };
    let nt = ttls.len() as u64;
    let qr = FnPart {
        name: "S-querier".into(),
        rule: "browse, then one full record set with TTL t (every t in the range) arrives 0.2 s or 1.5 s after the browse started, 1 or 2 interfaces; every query the daemon sends over the record's whole life (initial, retransmissions, refreshes) is inspected".into(),
        n: nt * 4,
        describe: Box::new(move |i| format!("ttl={} two_intf={} late={}", ttls[(i % nt) as usize], (i / nt) % 2 == 1, i / nt / 2 == 1)),
        run: Box::new({
            let ttls: Vec<u32> = if thorough { (2..=120).collect() } else { (2..=20).collect() };
            move |i, tr| run_querier(ttls[(i % nt) as usize], (i / nt) % 2 == 1, i / nt / 2 == 1, tr)
        }),
    };
    rep.run_part(&qr, Duration::from_secs(300));
    rep.require("S-responder", "suppression_expected");
    rep.require("S-responder", "answer_expected");
    rep.require("S-querier", "known_answers_checked");
    rep.finish()
}
