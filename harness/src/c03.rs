//! C03 — a resolved service only ever shows live data that was actually received (Engine S).
use crate::browse::*;
use crate::fw::*;
use std::time::Duration;

pub fn check(tier: &str) -> i32 {
    let mut rep = Report::new("C03", tier, "model_checking");
    let thorough = rep.thorough();
    rep.assume("soundness only (completeness is C04): every field of a ServiceResolved event must come from a record that the reference store says is live at the event's time");
    let scn = Scn { prop: Prop::C03, horizon_ms: 125_000, ops: OPS.to_vec(), host: HOST_PLAIN };
    rep.run_bfs(&scn, if thorough { 5 } else { 4 }, Duration::from_secs(if thorough { 3000 } else { 110 }));
    // the same histories for a host name with ASCII and non-ASCII capital letters, one level less deep and
    // without verify (whether a verify also cuts the shared host's addresses for the *other* instance
    // is not fixed by the statement, and the implementation answers it differently for such names)
    let scn2 = Scn { prop: Prop::C03, horizon_ms: 125_000, ops: OPS.iter().copied().filter(|o| *o != Op::VerifyI).collect(), host: HOST_CAPITALS };
    rep.run_bfs(&scn2, if thorough { 4 } else { 3 }, Duration::from_secs(if thorough { 1200 } else { 30 }));
    // a second browse of the type is served from the cache: the same oracle on what it is told
    let ops3 = vec![Op::AnnI120, Op::AnnI10, Op::PtrOnlyI, Op::GoodbyeA, Op::GoodbyeSrvI, Op::GoodbyeAllI, Op::SrvNewPort, Op::ANewFlush, Op::Idle1100, Op::Idle5s, Op::BrowseAgain];
    let scn3 = Scn { prop: Prop::C03, horizon_ms: 125_000, ops: ops3, host: HOST_PLAIN };
    rep.run_bfs(&scn3, if thorough { 6 } else { 4 }, Duration::from_secs(if thorough { 3000 } else { 60 }));
    rep.require("browse-histories-C03-with-a-second-browse", "resolved_events_checked");
    rep.require("browse-histories-C03", "resolved_events_checked");
    rep.require("browse-histories-C03-host-with-capitals", "resolved_events_checked");
    rep.finish()
}
