//! C17 — hostname resolution: right addresses, case-insensitive, ends on time (Engine S).
use crate::fw::*;
use crate::indep::*;
use crate::scn::*;
use crate::sim::*;
use std::collections::BTreeSet;
use std::net::IpAddr;
use std::time::Duration;

#[derive(Clone, Copy, Debug, PartialEq)]
enum Op {
    ResolveMixed,
    ResolveLower500,
    ResolveMixed1500,
    ResolveLower3000,
    Stop,
    A1Lower10,
    A1Upper2,
    A2Lower1,
    A1OnIf1,
    Aaaa10,
    GoodbyeA1,
    FlushA3,
    A2NoFlush10,
    Idle400,
    Idle1s,
    Idle1500,
    /// while a search is open: the host (spelt in capitals) announces another service type; the packet
    /// holds that type's PTR and the host's address
    A4UpperInAnnouncement10,
}
const OPS: [Op; 17] = [
    Op::ResolveMixed,
    Op::ResolveLower500,
    Op::ResolveMixed1500,
    Op::ResolveLower3000,
    Op::Stop,
    Op::A1Lower10,
    Op::A1Upper2,
    Op::A2Lower1,
    Op::A1OnIf1,
    Op::Aaaa10,
    Op::GoodbyeA1,
    Op::FlushA3,
    Op::A2NoFlush10,
    Op::Idle400,
    Op::Idle1s,
    Op::Idle1500,
    Op::A4UpperInAnnouncement10,
];

/// One delivered address record (the reference store).
#[derive(Clone, Debug)]
struct Arr {
    t: u64,
    owner: String,
    ip: IpAddr,
    ttl: u32,
    flush: bool,
    ifi: u32,
}

struct Search {
    ch: usize,
    start: u64,
    deadline: Option<u64>,
    ended: Option<u64>,
}

struct Run {
    w: World,
    store: Vec<Arr>,
    searches: Vec<Search>,
    viols: Vec<Viol>,
    counters: Vec<(&'static str, u64)>,
    checked_upto: usize,
}

struct Scn {
    horizon_ms: u64,
}

fn if_name(ifi: u32) -> &'static str {
    if ifi == IF0 {
        "sim0"
    } else {
        "sim1"
    }
}

/// (ip, interface) pairs live at time t according to the delivered records.
fn live(store: &[Arr], t: u64) -> BTreeSet<(String, IpAddr, u32)> {
    let mut out = BTreeSet::new();
    // identity of a cached copy: owner spelling, flush bit, ip, interface
    let mut ids: Vec<(String, bool, IpAddr, u32)> = store.iter().map(|a| (a.owner.clone(), a.flush, a.ip, a.ifi)).collect();
    ids.sort();
    ids.dedup();
    for id in ids {
        let copies: Vec<&Arr> = store.iter().filter(|a| (a.owner.clone(), a.flush, a.ip, a.ifi) == id && a.t <= t).collect();
        let Some(last) = copies.last() else { continue };
        let mut expiry = last.t + (last.ttl.max(1) as u64) * 1000;
        // displaced by a later cache-flush record of the same name and type on the same
        // interface that arrived more than one second after this copy
        for f in store.iter().filter(|f| f.flush && f.t <= t && f.ifi == last.ifi && f.ip.is_ipv4() == last.ip.is_ipv4() && f.t > last.t + 1000) {
            // (the flushing record's own identity is excluded by f.t > last.t)
            if (f.owner.clone(), f.flush, f.ip, f.ifi) != id {
                expiry = expiry.min(f.t + 1000);
            }
        }
        if t < expiry {
            out.insert((id.0.clone(), id.2, id.3));
        }
    }
    out
}

impl Scn {
    fn cur(run: &Run) -> Option<usize> {
        let now = run.w.now;
        (0..run.searches.len()).rev().find(|&i| run.searches[i].ended.is_none() && run.searches[i].deadline.map_or(true, |d| now < d))
    }

    /// After every step: the client's view (found minus removed) equals the live set.
    fn check_view(&self, run: &mut Run, label: &str) {
        let Some(si) = (0..run.searches.len()).rev().find(|&i| run.searches[i].ended.is_none()) else { return };
        let s = &run.searches[si];
        if s.deadline.is_some_and(|d| run.w.now >= d) {
            return;
        }
        let evs = hevs(&run.w, 0, s.ch, 0);
        // the client's view, keyed the way the events are: (name as spelled, address, interface)
        let mut view: BTreeSet<(String, IpAddr, u32)> = BTreeSet::new();
        for (_, e) in &evs {
            match e {
                HEv::Found(nm, v) => {
                    for a in v {
                        for (_, idx) in &a.intfs {
                            view.insert((nm.clone(), a.ip, *idx));
                        }
                    }
                }
                HEv::Removed(nm, v) => {
                    for a in v {
                        for (_, idx) in &a.intfs {
                            view.remove(&(nm.clone(), a.ip, *idx));
                        }
                    }
                }
                _ => {}
            }
        }
        // interface tags must carry the right name too
        for (_, e) in &evs {
            if let HEv::Found(_, v) = e {
                for a in v {
                    for (nm, idx) in &a.intfs {
                        if nm != if_name(*idx) {
                            run.viols.push(viol("C17|address-tagged-with-wrong-interface-name", format!("{a:?}")));
                        }
                    }
                }
            }
        }
        // an address is only ever reported found while a record for it is alive (also in the replay
        // of what was cached before the search began); the very millisecond of the expiry is left open
        for (t, e) in &evs {
            if let HEv::Found(nm, v) = e {
                let alive: BTreeSet<(String, IpAddr, u32)> = live(&run.store, *t).union(&live(&run.store, t.saturating_sub(1))).cloned().collect();
                for a in v {
                    for (_, idx) in &a.intfs {
                        run.counters.push(("found_addresses_checked_alive", 1));
                        if !alive.contains(&(nm.clone(), a.ip, *idx)) {
                            let sig = "C17|address-reported-found-although-no-record-for-it-is-alive";
                            if !run.viols.iter().any(|x| x.sig == sig) {
                                run.viols.push(viol(sig, format!("at +{} the search begun at +{} reports {} {:?} on interface {idx}; delivered {:?}", t - T0, s.start - T0, nm, a.ip, run.store.iter().map(|a| (a.t - T0, &a.owner, a.ip, a.ttl, a.flush, a.ifi)).collect::<Vec<_>>())));
                            }
                        }
                    }
                }
            }
        }
        let want = live(&run.store, run.w.now);
        run.counters.push(("views_compared", 1));
        if !want.is_empty() {
            run.counters.push(("nonempty_views_compared", 1));
        }
        if view != want {
            let missing: Vec<_> = want.difference(&view).collect();
            let extra: Vec<_> = view.difference(&want).collect();
            let kind = if !missing.is_empty() { "live-address-not-reported" } else { "dead-address-still-reported" };
            run.viols.push(viol(
                format!("C17|client-view-differs-from-live-addresses|{kind}"),
                format!("after {label} at +{}: missing {missing:?} extra {extra:?}; delivered {:?}; events {:?}", run.w.now - T0, run.store.iter().map(|a| (a.t - T0, &a.owner, a.ip, a.ttl, a.flush, a.ifi)).collect::<Vec<_>>(), evs.iter().map(|(t, e)| (t - T0, e)).collect::<Vec<_>>()),
            ));
        }
    }
}

impl Scenario for Scn {
    type Run = Run;
    fn name(&self) -> String {
        "hostname-resolution-sequences".into()
    }
    fn rule(&self) -> String {
        "all sequences over {resolve Foo.local./foo.local. with timeout none/500/1500/3000, stop, address records for the name in either letter case (two IPv4 addresses, IPv6, TTL 1/2/10, two interfaces), goodbye, cache-flush replacement, non-flush addition, an address arriving inside the host's announcement of another service type, idle 400 ms / 1 s / 1.5 s}; after every step the client's view is compared with the reference store".into()
    }
    fn setup(&self) -> Run {
        let mut w = World::one(lay_two_dual());
        w.ds[0].h.set_ip_check_interval(0).unwrap();
        w.poke(0);
        Run { w, store: vec![], searches: vec![], viols: vec![], counters: vec![], checked_upto: 0 }
    }
    fn menu(&self, _run: &Run) -> Vec<String> {
        OPS.iter().map(|o| format!("{o:?}")).collect()
    }
    fn apply(&self, run: &mut Run, choice: usize) {
        let op = OPS[choice];
        let now = run.w.now;
        let lower = n("foo.local");
        let upper = n("FOO.local");
        let mut deliver = |run: &mut Run, owner: &Name, ip: IpAddr, ttl: u32, flush: bool, ifi: u32| {
            let mut r = match ip {
                IpAddr::V4(v) => a(owner, v.octets(), ttl),
                IpAddr::V6(v) => aaaa(owner, v, ttl),
            };
            r.flush = flush;
            let src = if ifi == IF0 { PEER0 } else { PEER1 };
            // only records that arrive while a search is open (or that the daemon caches anyway)
            run.store.push(Arr { t: now, owner: dotted(owner), ip, ttl, flush, ifi });
            run.w.deliver(0, ifi, src, build(&response(vec![r])));
        };
        let ip1: IpAddr = "10.0.0.21".parse().unwrap();
        let ip2: IpAddr = "10.0.0.22".parse().unwrap();
        let ip3: IpAddr = "10.0.0.23".parse().unwrap();
        match op {
            Op::ResolveMixed | Op::ResolveLower500 | Op::ResolveMixed1500 | Op::ResolveLower3000 => {
                let (name, to) = match op {
                    Op::ResolveMixed => ("Foo.local.", None),
                    Op::ResolveLower500 => ("foo.local.", Some(500)),
                    Op::ResolveMixed1500 => ("Foo.local.", Some(1500)),
                    _ => ("foo.local.", Some(3000)),
                };
                if let Some(c) = Scn::cur(run) {
                    run.searches[c].ended = Some(now); // replaced
                }
                let rx = run.w.ds[0].h.resolve_hostname(name, to).unwrap();
                let ch = run.w.add_host(0, rx);
                run.searches.push(Search { ch, start: now, deadline: to.map(|t| now + t), ended: None });
                run.w.poke(0);
            }
            Op::Stop => {
                run.w.ds[0].h.stop_resolve_hostname("FOO.LOCAL.").unwrap();
                if let Some(c) = Scn::cur(run) {
                    run.searches[c].ended = Some(now);
                }
                run.w.poke(0);
            }
            Op::A1Lower10 => deliver(run, &lower, ip1, 10, true, IF0),
            Op::A1Upper2 => deliver(run, &upper, ip1, 2, true, IF0),
            Op::A2Lower1 => deliver(run, &lower, ip2, 1, true, IF0),
            Op::A1OnIf1 => deliver(run, &lower, ip1, 10, true, IF1),
            Op::Aaaa10 => deliver(run, &lower, "fd00:1::21".parse().unwrap(), 10, true, IF1),
            Op::GoodbyeA1 => deliver(run, &lower, ip1, 0, true, IF0),
            Op::FlushA3 => deliver(run, &lower, ip3, 10, true, IF0),
            Op::A2NoFlush10 => deliver(run, &lower, "10.0.0.24".parse().unwrap(), 10, false, IF0),
            Op::Idle400 => run.w.advance(400),
            Op::Idle1s => run.w.advance(1000),
            Op::Idle1500 => run.w.advance(1500),
            Op::A4UpperInAnnouncement10 => {
                // (without an open search such a packet is another type's business and may be
                // ignored whole: then the event is a no-op)
                if Scn::cur(run).is_some() {
                    let ip: IpAddr = "10.0.0.25".parse().unwrap();
                    run.store.push(Arr { t: now, owner: dotted(&upper), ip, ttl: 10, flush: true, ifi: IF0 });
                    let recs = vec![ptr(&n("_z._udp.local"), &n("other._z._udp.local"), 120), a(&upper, [10, 0, 0, 25], 10)];
                    run.w.deliver(0, IF0, PEER0, build(&response(recs)));
                }
            }
        }
        self.check_view(run, &format!("{op:?}"));
    }
    fn digest(&self, run: &mut Run) -> u128 {
        let now = run.w.now;
        let mut s = run.w.dump(0).unwrap_or_default();
        for a in &run.store {
            let age = now - a.t;
            // records older than every TTL and flush window no longer matter
            if age <= 12_000 {
                s.push_str(&format!("arr {} {} {} {} {} {}\n", age, a.owner, a.ip, a.ttl, a.flush, a.ifi));
            }
        }
        for se in &run.searches {
            s.push_str(&format!("search {:?} {:?} {}\n", se.deadline.map(|d| d as i128 - now as i128), se.ended.map(|e| now - e), now - se.start));
            let evs = hevs(&run.w, 0, se.ch, 0);
            s.push_str(&format!("{:?}\n", evs.iter().map(|(_, e)| e).collect::<Vec<_>>()));
        }
        fnv128(s.as_bytes())
    }
    fn finish(&self, run: &mut Run) {
        // run out the horizon one second at a time, comparing views at every second
        let end = run.w.now + self.horizon_ms;
        while run.w.now < end {
            run.w.advance(1000);
            self.check_view(run, "horizon");
        }
        if let Some(f) = daemon_fault(&run.w, 0) {
            run.viols.push(viol(format!("C17|daemon-fault|{}", panic_sig(&f)), f));
        }
        let host = n("foo.local");
        let all = outs(&run.w, 0, 0);
        for (k, se) in run.searches.iter().enumerate() {
            let evs = hevs(&run.w, 0, se.ch, 0);
            // asks A and AAAA at once
            let initial = all.iter().any(|(t, o)| *t == se.start && o.msg.as_ref().is_ok_and(|m| !m.is_response() && asks(m, &host, T_A) && asks(m, &host, T_AAAA)));
            if !initial {
                run.viols.push(viol("C17|no-initial-A-and-AAAA-query", format!("search {k} started +{}", se.start - T0)));
            }
            run.counters.push(("searches_checked", 1));
            if let Some(d) = se.deadline {
                if se.ended.map_or(true, |e| e > d) {
                    run.counters.push(("timeouts_checked", 1));
                    let names: Vec<(u64, &str)> = evs
                        .iter()
                        .map(|(t, e)| (*t, match e { HEv::Started(_) => "Started", HEv::Found(..) => "Found", HEv::Removed(..) => "Removed", HEv::Timeout(_) => "Timeout", HEv::Stopped(_) => "Stopped", HEv::Other(_) => "Other" }))
                        .collect();
                    let tail: Vec<&(u64, &str)> = names.iter().filter(|(t, _)| *t >= d).collect();
                    let ok = tail.len() == 2 && tail[0] == &(d, "Timeout") && tail[1] == &(d, "Stopped");
                    if !ok {
                        run.viols.push(viol(
                            "C17|timeout-not-reported-as-SearchTimeout-then-SearchStopped-at-the-deadline",
                            format!("search {k} started +{} deadline +{}: events from the deadline on {:?}", se.start - T0, d - T0, tail.iter().map(|(t, n)| (t - T0, n)).collect::<Vec<_>>()),
                        ));
                    }
                }
            }
        }
        // no A/AAAA question for the name while no search is open
        for (t, o) in &all {
            let Ok(m) = &o.msg else { continue };
            if m.is_response() || !(asks(m, &host, T_A) || asks(m, &host, T_AAAA)) {
                continue;
            }
            let open = run.searches.iter().any(|s| s.start <= *t && s.ended.map_or(true, |e| *t <= e) && s.deadline.map_or(true, |d| *t < d));
            if !open {
                run.viols.push(viol("C17|query-while-no-search-is-open", format!("at +{}: {}", t - T0, m.summary())));
            }
        }
        let _ = run.checked_upto;
    }
    fn result(&self, mut run: Run) -> CaseResult {
        let mut r = CaseResult {
            viols: std::mem::take(&mut run.viols),
            transitions: run.w.steps,
            outcome: outcome_hash(&run.w.log),
            nontrivial: !run.searches.is_empty() && !run.store.is_empty(),
            ..Default::default()
        };
        for (k, v) in run.counters.drain(..) {
            r.count(k, v);
        }
        r
    }
}

// ---------------------------------------------------------------- an open search against a live responder

/// A resolver with no timeout and a scripted responder that answers every question the daemon asks
/// about the host with the records of the type asked (as the crate's own responder does).  While the
/// host keeps answering, every address must be found and none may ever be reported removed: the
/// daemon has to refresh each record before it expires.
fn run_live_responder(set: u64, ttl: u32, trace: bool) -> CaseResult {
    let mut res = CaseResult::default();
    let mut w = World::one(lay_dual());
    w.trace = trace;
    w.ds[0].h.set_ip_check_interval(3600).unwrap();
    w.poke(0);
    let rx = w.ds[0].h.resolve_hostname("h.local.", None).unwrap();
    let ch = w.add_host(0, rx);
    let host = n("h.local");
    let v4s: Vec<[u8; 4]> = match set { 0 => vec![[10, 0, 0, 9]], 1 => vec![], 2 => vec![[10, 0, 0, 9]], _ => vec![[10, 0, 0, 9], [10, 0, 0, 10]] };
    let v6s: Vec<std::net::Ipv6Addr> = match set { 0 => vec![], _ => vec!["fd00::9".parse().unwrap()] };
    let mut seen = w.log.len();
    w.poke(0);
    let end = T0 + (3 * ttl as u64 + 5) * 1000;
    let mut answered = 0u64;
    let mut guard = 0;
    loop {
        guard += 1;
        if guard > 200_000 {
            res.viols.push(viol("C17|live-responder|harness-guard", "too many steps".to_string()));
            break;
        }
        // questions asked since the last look
        let mut want_a = false;
        let mut want_aaaa = false;
        for e in &w.log[seen..] {
            if let Kind::Out(o) = &e.kind {
                if let Ok(m) = &o.msg {
                    if !m.is_response() {
                        for q in &m.questions {
                            if name_eq_ci(&q.name, &host) {
                                want_a |= q.qtype == T_A || q.qtype == T_ANY;
                                want_aaaa |= q.qtype == T_AAAA || q.qtype == T_ANY;
                            }
                        }
                    }
                }
            }
        }
        seen = w.log.len();
        if want_a || want_aaaa {
            let mut recs = vec![];
            if want_a {
                recs.extend(v4s.iter().map(|ip| a(&host, *ip, ttl)));
            }
            if want_aaaa {
                recs.extend(v6s.iter().map(|ip| aaaa(&host, *ip, ttl)));
            }
            if !recs.is_empty() {
                answered += 1;
                w.deliver(0, IF0, PEER0, build(&response(recs)));
                continue;
            }
        }
        if !w.wake_next(end) {
            break;
        }
    }
    res.count("questions_answered", answered);
    let evs = hevs(&w, 0, ch, 0);
    let all: Vec<IpAddr> = v4s.iter().map(|x| ip4(*x)).chain(v6s.iter().map(|x| IpAddr::V6(*x))).collect();
    for ip in &all {
        if !evs.iter().any(|(_, e)| matches!(e, HEv::Found(_, v) if v.iter().any(|x| x.ip == *ip))) {
            res.viols.push(viol("C17|live-responder|address-never-found", format!("{ip} (ttl {ttl}, set {set}); events {:?}", evs.iter().map(|(t, e)| (t - T0, format!("{e:?}"))).collect::<Vec<_>>())));
        }
        if let Some((t, _)) = evs.iter().find(|(_, e)| matches!(e, HEv::Removed(_, v) if v.iter().any(|x| x.ip == *ip))) {
            res.viols.push(viol("C17|live-responder|address-of-an-answering-host-reported-removed", format!("{ip} at +{} (ttl {ttl}, set {set}): every question was answered at once, the record should have been refreshed before it expired", t - T0)));
        }
    }
    if let Some(f) = daemon_fault(&w, 0) {
        res.viols.push(viol("C17|daemon-fault", f));
    }
    res.nontrivial = true;
    res.transitions = w.steps;
    res.outcome = outcome_hash(&w.log);
    res.states = final_states(&w);
    res
}

pub fn check(tier: &str) -> i32 {
    let mut rep = Report::new("C17", tier, "model_checking");
    let thorough = rep.thorough();
    rep.assume("a cached copy is identified by owner spelling, cache-flush bit, address and interface (what the crate's record equality uses); goodbyes are sent with the same bits as the record they withdraw");
    let scn = Scn { horizon_ms: 13_000 };
    rep.run_bfs(&scn, if thorough { 5 } else { 4 }, Duration::from_secs(if thorough { 3000 } else { 50 }));
    let ttls: Vec<u32> = if thorough { vec![2, 3, 5, 10, 30, 120, 600] } else { vec![3, 10, 120] };
    let nt = ttls.len() as u64;
    let tt = ttls.clone();
    let live = FnPart {
        name: "open-search-against-a-live-responder".into(),
        rule: "a resolver without timeout and a scripted responder answering every A / AAAA question about the host with the records of the type asked; address sets {one A | one AAAA | A + AAAA | two A + AAAA} x TTLs; over three TTLs every address must be found and none reported removed".into(),
        n: 4 * nt,
        describe: Box::new(move |i| format!("address set {} ttl {}", i / nt, tt[(i % nt) as usize])),
        run: Box::new(move |i, tr| run_live_responder(i / nt, ttls[(i % nt) as usize], tr)),
    };
    rep.run_part(&live, Duration::from_secs(120));
    rep.require("open-search-against-a-live-responder", "questions_answered");
    rep.require("hostname-resolution-sequences", "nonempty_views_compared");
    rep.require("hostname-resolution-sequences", "timeouts_checked");
    rep.finish()
}
