//! C16 — TXT properties survive the trip unchanged (Engine W, plus an end-to-end part on S).
use crate::fw::*;
use crate::indep::*;
use crate::scn::*;
use crate::sim::*;
use mdns_sd::verif::wire;
use mdns_sd::{ServiceInfo, TxtProperties, TxtProperty};
use std::collections::HashMap;
use std::panic::{catch_unwind, AssertUnwindSafe};
use std::time::Duration;

type Prop = (String, Option<Vec<u8>>);

fn keys() -> Vec<String> {
    vec![
        "".into(),
        "k".into(),
        "K".into(),
        "k2".into(),
        "a=b".into(),
        "é".into(),
        "x".repeat(254),
        "x".repeat(255),
    ]
}

/// Value menu; `len_for` values are sized relative to the key so the entry is 254/255/256 bytes.
fn values(key: &str) -> Vec<Option<Vec<u8>>> {
    let mut v: Vec<Option<Vec<u8>>> = vec![
        None,
        Some(vec![]),
        Some(b"v".to_vec()),
        Some(b"=".to_vec()),
        Some(vec![0]),
        Some(vec![0xFF]),
    ];
    for total in [254usize, 255, 256] {
        if total > key.len() + 1 {
            v.push(Some(vec![b'y'; total - key.len() - 1]));
        } else {
            v.push(Some(b"zz".to_vec()));
        }
    }
    v
}

fn prop_menu() -> Vec<Prop> {
    let mut v = vec![];
    for k in keys() {
        for val in values(&k) {
            v.push((k.clone(), val));
        }
    }
    v
}

fn entry_len(p: &Prop) -> usize {
    p.0.len() + p.1.as_ref().map_or(0, |v| v.len() + 1)
}

/// Must creation be refused? None = either is acceptable.
fn must_refuse(list: &[Prop]) -> Option<bool> {
    let mut dont_care = false;
    for p in list {
        if !p.0.is_ascii() || p.0.contains('=') || entry_len(p) > 255 {
            return Some(true);
        }
        if p.0.is_empty() {
            if p.1.is_none() {
                // an empty boolean key encodes as a zero-length string: unrepresentable
                return Some(true);
            }
            dont_care = true; // "=v": RFC 6763 says receivers ignore it; the crate keeps it
        }
    }
    if dont_care {
        None
    } else {
        Some(false)
    }
}

fn dedup_first_ci(list: &[Prop]) -> Vec<Prop> {
    let mut seen: Vec<String> = vec![];
    let mut out = vec![];
    for p in list {
        let k = p.0.to_lowercase();
        if !seen.contains(&k) {
            seen.push(k);
            out.push(p.clone());
        }
    }
    out
}

fn plain(tp: &TxtProperties) -> Vec<Prop> {
    tp.iter()
        .map(|p| (p.key().to_string(), p.val().map(|v| v.to_vec())))
        .collect()
}

#[derive(Clone, Copy, Debug)]
enum Input {
    VecProps,
    SliceStr,
    SliceOwnedBytes,
    Map,
    OptMap,
}

fn make(list: &[Prop], how: Input) -> Option<mdns_sd::Result<ServiceInfo>> {
    let ty = "_t._tcp.local.";
    let all_str = list.iter().all(|p| p.1.as_ref().is_some_and(|v| std::str::from_utf8(v).is_ok()));
    match how {
        Input::VecProps => {
            let v: Vec<TxtProperty> = list
                .iter()
                .map(|(k, val)| match val {
                    None => TxtProperty::from(k.as_str()),
                    Some(b) => TxtProperty::from((k.as_str(), b.as_slice())),
                })
                .collect();
            Some(ServiceInfo::new(ty, "i", "h.local.", "10.0.0.5", 1, v))
        }
        Input::SliceStr => {
            if !all_str {
                return None;
            }
            let v: Vec<(String, String)> = list
                .iter()
                .map(|(k, val)| (k.clone(), String::from_utf8(val.clone().unwrap()).unwrap()))
                .collect();
            Some(ServiceInfo::new(ty, "i", "h.local.", "10.0.0.5", 1, &v[..]))
        }
        Input::SliceOwnedBytes => {
            // slice of borrowed (&str, &str) tuples
            if !all_str {
                return None;
            }
            let owned: Vec<(String, String)> = list
                .iter()
                .map(|(k, val)| (k.clone(), String::from_utf8(val.clone().unwrap()).unwrap()))
                .collect();
            let v: Vec<(&str, &str)> = owned.iter().map(|(k, v)| (k.as_str(), v.as_str())).collect();
            Some(ServiceInfo::new(ty, "i", "h.local.", "10.0.0.5", 1, &v[..]))
        }
        Input::Map | Input::OptMap => {
            if !all_str {
                return None;
            }
            // a map cannot hold the same key twice
            let mut m: HashMap<String, String> = HashMap::new();
            for (k, val) in list {
                if m.insert(k.clone(), String::from_utf8(val.clone().unwrap()).unwrap()).is_some() {
                    return None;
                }
            }
            Some(match how {
                Input::Map => ServiceInfo::new(ty, "i", "h.local.", "10.0.0.5", 1, m),
                _ => ServiceInfo::new(ty, "i", "h.local.", "10.0.0.5", 1, Some(m)),
            })
        }
    }
}

fn check_list(list: &[Prop], how: Input, res: &mut CaseResult) {
    let r = catch_unwind(AssertUnwindSafe(|| make(list, how)));
    let made = match r {
        Err(_) => {
            let p = take_panic().unwrap_or_default();
            res.viols.push(viol(format!("C16|panic-at-creation|{}", panic_sig(&p)), p));
            return;
        }
        Ok(None) => return,
        Ok(Some(m)) => m,
    };
    res.transitions += 1;
    res.nontrivial = true;
    let shown = || format!("{:?} via {:?}", list.iter().map(|(k, v)| (truncate(k, 12), v.as_ref().map(|b| truncate(&hex(b), 12)))).collect::<Vec<_>>(), how);
    // `&[T]` inputs drop later duplicates before validation; judge what is left
    let effective: Vec<Prop> = match how {
        Input::SliceStr | Input::SliceOwnedBytes => dedup_first_ci(list),
        _ => list.to_vec(),
    };
    let refuse = must_refuse(&effective);
    match (&made, refuse) {
        (Ok(_), Some(true)) => {
            let why = if effective.iter().any(|p| p.0.is_empty() && p.1.is_none()) {
                "empty-boolean-key"
            } else {
                "invalid-key-or-too-long"
            };
            res.viols.push(viol(format!("C16|unrepresentable-property-accepted|{why}"), shown()));
            res.outcome = 1;
        }
        (Err(e), Some(false)) => {
            res.viols.push(viol("C16|representable-properties-refused", format!("{} -> {e}", shown())));
            res.outcome = 2;
            return;
        }
        (Err(_), _) => {
            res.count("refused", 1);
            res.outcome = 3;
            return;
        }
        _ => {}
    }
    let Ok(info) = made else { return };
    res.count("accepted", 1);
    let rdata = match catch_unwind(AssertUnwindSafe(|| wire::txt_of(&info))) {
        Ok(r) => r,
        Err(_) => {
            let p = take_panic().unwrap_or_default();
            res.viols.push(viol(format!("C16|panic-at-encoding|{}", panic_sig(&p)), format!("{} {p}", shown())));
            return;
        }
    };
    res.outcome = fnv128(&rdata);
    // every encoded string is at most 255 bytes and the RDATA splits cleanly
    let strings = match split_txt(&rdata) {
        Ok(s) => s,
        Err(e) => {
            res.viols.push(viol("C16|encoded-rdata-does-not-split", format!("{} -> {} ({e})", shown(), hex(&rdata))));
            return;
        }
    };
    if refuse == Some(true) {
        return; // already reported; what it decodes to is secondary
    }
    // what a browser sees: the crate's own decoding of that RDATA
    let seen = plain(&TxtProperties::from(&rdata[..]));
    let ordered = !matches!(how, Input::Map | Input::OptMap);
    // A map has no order: whichever order the wire has defines "first".
    let wire_order: Vec<Prop> = if ordered {
        effective.clone()
    } else {
        strings
            .iter()
            .filter(|s| !s.is_empty())
            .map(|s| match s.iter().position(|&b| b == b'=') {
                Some(i) => (String::from_utf8_lossy(&s[..i]).into_owned(), Some(s[i + 1..].to_vec())),
                None => (String::from_utf8_lossy(s).into_owned(), None),
            })
            .collect()
    };
    let want = dedup_first_ci(&wire_order);
    let same = seen == want;
    if !same {
        res.viols.push(viol(
            "C16|decoded-properties-differ-from-created",
            format!("{}: browser sees {:?}", shown(), seen.iter().map(|(k, v)| (truncate(k, 12), v.as_ref().map(|b| truncate(&hex(b), 12)))).collect::<Vec<_>>()),
        ));
    }
    // independent reading of the wire: same entries, in order, none-vs-empty intact
    let indep_props: Vec<Prop> = strings
        .iter()
        .filter(|s| !s.is_empty())
        .map(|s| match s.iter().position(|&b| b == b'=') {
            Some(i) => (String::from_utf8_lossy(&s[..i]).into_owned(), Some(s[i + 1..].to_vec())),
            None => (String::from_utf8_lossy(s).into_owned(), None),
        })
        .collect();
    let wire_want: Vec<Prop> = effective.clone();
    let same_wire = if ordered {
        indep_props == wire_want
    } else {
        let mut a = indep_props.clone();
        let mut b = wire_want.clone();
        a.sort();
        b.sort();
        a == b
    };
    if !same_wire && refuse == Some(false) {
        res.viols.push(viol(
            "C16|wire-strings-differ-from-created",
            format!("{}: wire {}", shown(), hex(&rdata)),
        ));
    }
    // case-insensitive lookups on the creator's and on the browser's side
    let browser = TxtProperties::from(&rdata[..]);
    for (k, v) in &want {
        for variant in [k.to_uppercase(), k.to_lowercase()] {
            let got_c = info.get_property_val(&variant).map(|o| o.map(|b| b.to_vec()));
            let got_b = browser.get_property_val(&variant).map(|o| o.map(|b| b.to_vec()));
            if got_c != Some(v.clone()) || got_b != Some(v.clone()) {
                res.viols.push(viol(
                    "C16|case-insensitive-lookup-wrong",
                    format!("{}: lookup {:?} creator {:?} browser {:?}", shown(), variant, got_c, got_b),
                ));
            }
        }
    }
}

const DEC_ALPHA: [u8; 7] = [0x00, 0x01, 0x02, 0x03, 0x3D, 0x61, 0xFF];

fn nth_bytes(mut idx: u64, max_len: usize) -> Vec<u8> {
    let k = DEC_ALPHA.len() as u64;
    let mut len = 0;
    let mut block = 1u64;
    while idx >= block {
        idx -= block;
        block *= k;
        len += 1;
        assert!(len <= max_len);
    }
    (0..len).map(|_| { let b = DEC_ALPHA[(idx % k) as usize]; idx /= k; b }).collect()
}

fn check_decode(bytes: &[u8], res: &mut CaseResult) {
    res.transitions += 1;
    res.nontrivial = true;
    let r = catch_unwind(AssertUnwindSafe(|| plain(&TxtProperties::from(bytes))));
    let seen = match r {
        Ok(s) => s,
        Err(_) => {
            let p = take_panic().unwrap_or_default();
            res.viols.push(viol(format!("C16|panic-decoding-txt|{}", panic_sig(&p)), format!("{} {p}", hex(bytes))));
            return;
        }
    };
    res.outcome = fnv128(format!("{seen:?}").as_bytes());
    // everything decoded must be one of the strings an independent splitter finds, in order
    let mut strings = vec![];
    let mut o = 0;
    while o < bytes.len() {
        let l = bytes[o] as usize;
        if o + 1 + l > bytes.len() {
            break;
        }
        strings.push(bytes[o + 1..o + 1 + l].to_vec());
        o += 1 + l;
    }
    let cands: Vec<Prop> = strings
        .iter()
        .filter(|s| !s.is_empty())
        .filter_map(|s| {
            let (k, v) = match s.iter().position(|&b| b == b'=') {
                Some(i) => (&s[..i], Some(s[i + 1..].to_vec())),
                None => (&s[..], None),
            };
            String::from_utf8(k.to_vec()).ok().map(|k| (k, v))
        })
        .collect();
    let cands = dedup_first_ci(&cands);
    let mut i = 0;
    for c in &cands {
        if i < seen.len() && seen[i] == *c {
            i += 1;
        }
    }
    if i != seen.len() {
        res.viols.push(viol(
            "C16|decoded-property-not-in-record",
            format!("{} decodes to {:?}, strings in record {:?}", hex(bytes), seen, cands),
        ));
    }
    if !seen.is_empty() {
        res.count("decoded_nonempty", 1);
    }
}

/// End to end: registered on daemon A, browsed from daemon B over a simulated link.
fn end_to_end(list: &[Prop], trace: bool) -> CaseResult {
    let mut res = CaseResult::default();
    let v: Vec<TxtProperty> = list
        .iter()
        .map(|(k, val)| match val {
            None => TxtProperty::from(k.as_str()),
            Some(b) => TxtProperty::from((k.as_str(), b.as_slice())),
        })
        .collect();
    let Ok(info) = ServiceInfo::new("_t._tcp.local.", "i", "h.local.", "10.0.0.1", 1, v) else {
        return res;
    };
    let mut w = World::new();
    w.trace = trace;
    let a = w.add_daemon(vec![v4("sim0", IF0, "10.0.0.1", 24)]);
    let b = w.add_daemon(vec![v4("sim0", IF0, "10.0.0.2", 24)]);
    w.links.push(vec![(a, IF0), (b, IF0)]);
    let rx = w.ds[b].h.browse("_t._tcp.local.").unwrap();
    let ch = w.add_browse(b, rx);
    w.poke(b);
    w.ds[a].h.register(info).unwrap();
    w.poke(a);
    w.advance(3000);
    let want = dedup_first_ci(list);
    let got: Vec<Vec<Prop>> = bevs(&w, b, ch, 0)
        .into_iter()
        .filter_map(|(_, e)| match e {
            BEv::Resolved(r) => Some(r.txt),
            _ => None,
        })
        .collect();
    res.transitions = w.steps;
    res.nontrivial = true;
    res.states = final_states(&w);
    match got.last() {
        None => res.viols.push(viol("C16|e2e|service-not-resolved-at-browser", format!("{list:?}"))),
        Some(seen) => {
            res.count("e2e_resolved", 1);
            res.outcome = fnv128(format!("{seen:?}").as_bytes());
            if *seen != want {
                res.viols.push(viol("C16|e2e|properties-at-browser-differ", format!("registered {want:?} browser got {seen:?}")));
            }
        }
    }
    res
}

pub fn check(tier: &str) -> i32 {
    let mut rep = Report::new("C16", tier, "exploration");
    rep.case_limit = Duration::from_secs(30);
    let thorough = rep.thorough();
    rep.assume("a property with an empty key and a value ('=v') is a don't-care: RFC 6763 tells receivers to ignore it, the crate keeps it");
    let menu = prop_menu();
    let m = menu.len() as u64;
    let maxk = if thorough { 4 } else { 3 };
    let mut nlists = 0u64;
    let mut b = 1u64;
    for _ in 0..=maxk {
        nlists += b;
        b *= m;
    }
    let list_of = |mut idx: u64| -> Vec<Prop> {
        let mut len = 0;
        let mut block = 1u64;
        while idx >= block {
            idx -= block;
            block *= m;
            len += 1;
        }
        (0..len).map(|_| { let p = menu[(idx % m) as usize].clone(); idx /= m; p }).collect()
    };
    let inputs = [Input::VecProps, Input::SliceStr, Input::SliceOwnedBytes, Input::Map, Input::OptMap];
    let lists = FnPart {
        name: "property-lists".into(),
        rule: format!("every list of <= {maxk} entries over {} keys x 9 values (none, empty, '=', NUL, 0xFF, sizes making the entry 254/255/256 bytes) through 5 input types; non-trivial = the input type can express the list", keys().len()),
        n: nlists * inputs.len() as u64,
        describe: Box::new(|i| format!("{:?} via {:?}", list_of(i / 5).iter().map(|(k, v)| (truncate(k, 10), v.as_ref().map(|b| truncate(&hex(b), 10)))).collect::<Vec<_>>(), inputs[(i % 5) as usize])),
        run: Box::new(|i, _| {
            let mut r = CaseResult::default();
            check_list(&list_of(i / 5), inputs[(i % 5) as usize], &mut r);
            r
        }),
    };
    rep.run_part(&lists, Duration::from_secs(if thorough { 1800 } else { 45 }));

    let maxlen = if thorough { 9 } else { 8 };
    let mut nb = 0u64;
    let mut b = 1u64;
    for _ in 0..=maxlen {
        nb += b;
        b *= 7;
    }
    let dec = FnPart {
        name: "decode-arbitrary-bytes".into(),
        rule: format!("every byte string over {DEC_ALPHA:02x?} up to length {maxlen} given to the TXT decoder (includes length bytes pointing past the end)"),
        n: nb,
        describe: Box::new(move |i| hex(&nth_bytes(i, maxlen))),
        run: Box::new(move |i, _| {
            let mut r = CaseResult::default();
            check_decode(&nth_bytes(i, maxlen), &mut r);
            r
        }),
    };
    rep.run_part(&dec, Duration::from_secs(if thorough { 900 } else { 30 }));

    // end-to-end subset: all single entries and all pairs of "small" representable entries
    let small: Vec<Prop> = menu.iter().filter(|p| must_refuse(&[(*p).clone()]) == Some(false) && entry_len(p) < 40).cloned().collect();
    let s = small.len() as u64;
    let e2e = FnPart {
        name: "end-to-end".into(),
        rule: "every representable short entry alone and every ordered pair of them, registered on daemon A and browsed from daemon B over a simulated link".into(),
        n: s + s * s,
        describe: Box::new(|i| if i < s { format!("{:?}", small[i as usize]) } else { format!("{:?} {:?}", small[((i - s) / s) as usize], small[((i - s) % s) as usize]) }),
        run: Box::new(|i, tr| {
            let l = if i < s { vec![small[i as usize].clone()] } else { vec![small[((i - s) / s) as usize].clone(), small[((i - s) % s) as usize].clone()] };
            end_to_end(&l, tr)
        }),
    };
    rep.run_part(&e2e, Duration::from_secs(120));
    rep.require("property-lists", "accepted");
    rep.require("property-lists", "refused");
    rep.require("decode-arbitrary-bytes", "decoded_nonempty");
    rep.require("end-to-end", "e2e_resolved");
    rep.finish()
}
