//! Counting allocator: per-thread record of what a section of code asked the allocator for.
//! Used by C01 (memory proportional to the datagram size). Off by default; when off the only cost is
//! one thread-local read per allocation.
use std::alloc::{GlobalAlloc, Layout, System};
use std::cell::Cell;

thread_local! {
    static ON: Cell<bool> = const { Cell::new(false) };
    static MAX: Cell<usize> = const { Cell::new(0) };
    static SUM: Cell<usize> = const { Cell::new(0) };
}

pub struct Counting;

#[inline]
fn note(size: usize) {
    let _ = ON.try_with(|on| {
        if on.get() {
            let _ = MAX.try_with(|m| m.set(m.get().max(size)));
            let _ = SUM.try_with(|s| s.set(s.get().saturating_add(size)));
        }
    });
}

unsafe impl GlobalAlloc for Counting {
    unsafe fn alloc(&self, l: Layout) -> *mut u8 {
        note(l.size());
        System.alloc(l)
    }
    unsafe fn alloc_zeroed(&self, l: Layout) -> *mut u8 {
        note(l.size());
        System.alloc_zeroed(l)
    }
    unsafe fn dealloc(&self, p: *mut u8, l: Layout) {
        System.dealloc(p, l)
    }
    unsafe fn realloc(&self, p: *mut u8, l: Layout, new_size: usize) -> *mut u8 {
        note(new_size);
        System.realloc(p, l, new_size)
    }
}

/// Starts recording on the calling thread.
pub fn start() {
    MAX.with(|m| m.set(0));
    SUM.with(|s| s.set(0));
    ON.with(|o| o.set(true));
}

/// Stops recording; returns (largest single request, total bytes requested).
pub fn stop() -> (usize, usize) {
    ON.with(|o| o.set(false));
    (MAX.with(|m| m.get()), SUM.with(|s| s.get()))
}
