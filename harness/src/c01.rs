//! C01 — decoding any datagram is safe, terminating and bounded (Engine W).
use crate::fw::*;
use crate::indep::{self, *};
use mdns_sd::verif::{self, wire};
use std::panic::{catch_unwind, AssertUnwindSafe};
use std::time::Duration;

pub enum Dec {
    Ok(wire::Msg),
    Err,
    Panic(String),
    Fuel,
}

/// One decode under fuel and catch_unwind. Returns the outcome and the ticks used.
pub fn decode_guarded(data: &[u8]) -> (Dec, u64) {
    let (d, u, _) = decode_measured(data);
    (d, u)
}

/// As `decode_guarded`, also returning (largest single allocation request, total bytes requested)
/// of the decode on this thread.
pub fn decode_measured(data: &[u8]) -> (Dec, u64, (usize, usize)) {
    let budget = 64 * data.len() as u64 + 1024;
    verif::set_fuel(Some(budget));
    crate::alloc_track::start();
    let r = catch_unwind(AssertUnwindSafe(|| wire::decode(data)));
    let mem = crate::alloc_track::stop();
    let (d, u) = decode_finish(r, budget);
    (d, u, mem)
}

fn decode_finish(r: std::thread::Result<Result<wire::Msg, mdns_sd::Error>>, budget: u64) -> (Dec, u64) {
    let left = verif::fuel_left();
    verif::set_fuel(None);
    let used = budget - left.unwrap_or(0);
    match r {
        Ok(Ok(m)) => (Dec::Ok(m), used),
        Ok(Err(e)) => {
            if std::env::var("VERIF_SHOW_ERR").is_ok() {
                eprintln!("decode error: {e:?}");
            }
            (Dec::Err, used)
        }
        Err(_) => {
            let p = take_panic().unwrap_or_default();
            if p.starts_with("FUEL") {
                (Dec::Fuel, budget)
            } else {
                (Dec::Panic(p), used)
            }
        }
    }
}

fn wire_len_of(name: &str) -> usize {
    if name.is_empty() {
        1
    } else {
        name.len() + 1
    }
}

fn names_of(m: &wire::Msg) -> Vec<&str> {
    let mut v: Vec<&str> = m.questions.iter().map(|q| q.name.as_str()).collect();
    for r in m
        .answers
        .iter()
        .chain(m.authorities.iter())
        .chain(m.additionals.iter())
    {
        v.push(&r.name);
        match &r.rdata {
            wire::RData::Ptr(n) => v.push(n),
            wire::RData::Srv { host, .. } => v.push(host),
            wire::RData::Nsec { next, .. } => v.push(next),
            _ => {}
        }
    }
    v
}

fn contains(hay: &[u8], needle: &[u8]) -> bool {
    needle.is_empty() || hay.windows(needle.len()).any(|w| w == needle)
}

/// Compares one crate record with the independent parse of the same record.
fn rec_agrees(c: &wire::Rec, i: &Record, is_response: bool) -> Result<(), String> {
    if c.name != dotted(&i.name) {
        return Err(format!("owner {:?} vs {}", c.name, show_name(&i.name)));
    }
    if c.ty != i.rtype || c.class != i.class || c.flush != i.flush {
        return Err(format!(
            "type/class {}/{}/{} vs {}/{}/{}",
            c.ty, c.class, c.flush, i.rtype, i.class, i.flush
        ));
    }
    let exp_ttl = if i.ttl == 0 && is_response { 1 } else { i.ttl };
    if c.ttl != exp_ttl {
        return Err(format!("ttl {} vs {}", c.ttl, exp_ttl));
    }
    let ok = match (&c.rdata, &i.rd) {
        (wire::RData::A(a), RD::A(b)) => a.octets() == *b,
        (wire::RData::Aaaa(a), RD::Aaaa(b)) => a.octets() == *b,
        (wire::RData::Ptr(a), RD::Ptr(b)) => *a == dotted(b),
        (
            wire::RData::Srv {
                priority,
                weight,
                port,
                host,
            },
            RD::Srv {
                priority: p2,
                weight: w2,
                port: po2,
                target,
            },
        ) => priority == p2 && weight == w2 && port == po2 && *host == dotted(target),
        (wire::RData::Txt(a), RD::Txt(b)) => a == b,
        (wire::RData::Nsec { next, bitmap }, RD::Nsec { next: n2, rest }) => {
            *next == dotted(n2) && rest.len() >= 2 && &rest[2..] == bitmap.as_slice()
        }
        (wire::RData::HInfo { .. }, RD::Other(_)) => true,
        _ => false,
    };
    if ok {
        Ok(())
    } else {
        Err(format!("rdata {:?} vs {:?}", c.rdata, i.rd))
    }
}

const CRATE_TYPES: [u16; 8] = [T_A, T_CNAME, T_PTR, T_HINFO, T_TXT, T_AAAA, T_SRV, T_NSEC];

/// All oracles for one datagram.
pub fn check_datagram(data: &[u8], res: &mut CaseResult) {
    let n = data.len();
    let (dec, used, (mem_max, mem_sum)) = decode_measured(data);
    res.transitions += 1;
    res.count("decoder_ticks", used);
    // memory asked for while decoding stays proportional to the datagram: no single request above
    // 32 n + 4096 bytes, no more than 512 n + 65536 bytes in total (a 2-byte compressed name may
    // expand to 255 bytes, a minimal 11-byte record to a boxed record plus its copy in the dump)
    if mem_max > 32 * n + 4096 {
        res.viols.push(viol("C01|memory|single-allocation-request-out-of-proportion", format!("{} bytes requested at once while decoding a {}-byte datagram {}", mem_max, n, truncate(&hex(data), 200))));
    } else if mem_sum > 512 * n + 65536 {
        res.viols.push(viol("C01|memory|total-requested-out-of-proportion", format!("{} bytes requested in total while decoding a {}-byte datagram {}", mem_sum, n, truncate(&hex(data), 200))));
    }
    res.count("allocation_bytes_requested", mem_sum as u64);
    let mut h = crate::sim::fnv128(data) & 0xFFFF; // outcome class, refined below
    match dec {
        Dec::Fuel => {
            res.viols.push(viol(
                "C01|no-termination|decoder exceeds 64n+1024 loop ticks",
                format!("len {} data {}", n, truncate(&hex(data), 200)),
            ));
            h = 1;
        }
        Dec::Panic(p) => {
            res.viols.push(viol(
                format!("C01|panic|{}", panic_sig(&p)),
                format!("{} on data {}", p, truncate(&hex(data), 200)),
            ));
            h = 2;
        }
        Dec::Err => {
            res.count("rejected", 1);
            h = 3;
        }
        Dec::Ok(m) => {
            res.count("accepted", 1);
            let limit = n.max(255);
            for nm in names_of(&m) {
                if wire_len_of(nm) > limit {
                    res.viols.push(viol(
                        "C01|name-longer-than-datagram-and-255",
                        format!(
                            "decoded name of {} bytes from a {}-byte datagram {}",
                            wire_len_of(nm),
                            n,
                            truncate(&hex(data), 200)
                        ),
                    ));
                    break;
                }
            }
            let counts = [
                m.questions.len(),
                m.answers.len(),
                m.authorities.len(),
                m.additionals.len(),
            ];
            for k in 0..4 {
                if counts[k] > m.counts[k] as usize {
                    res.viols.push(viol(
                        "C01|more-entries-than-header-count",
                        format!("section {k}: {} > {}", counts[k], m.counts[k]),
                    ));
                }
            }
            // provenance
            let is_resp = m.flags & 0x8000 != 0;
            match indep::parse(data) {
                Ok(im) => {
                    res.count("both_accept", 1);
                    let pairs: [(&Vec<wire::Rec>, &Vec<Record>, &str); 3] = [
                        (&m.answers, &im.answers, "answers"),
                        (&m.authorities, &im.authorities, "authorities"),
                        (&m.additionals, &im.additionals, "additionals"),
                    ];
                    if m.questions.len() != im.questions.len()
                        || m.questions.iter().zip(im.questions.iter()).any(|(c, i)| {
                            c.name != dotted(&i.name)
                                || c.ty != i.qtype
                                || (c.class | if c.flush { 0x8000 } else { 0 }) != i.qclass
                        })
                    {
                        res.viols.push(viol(
                            "C01|provenance|questions differ from independent parse",
                            format!("{:?} vs {} on {}", m.questions, im.summary(), hex(data)),
                        ));
                    }
                    for (cv, iv, sec) in pairs {
                        let iv: Vec<&Record> = iv
                            .iter()
                            .filter(|r| CRATE_TYPES.contains(&r.rtype))
                            .collect();
                        if cv.len() != iv.len() {
                            res.viols.push(viol(
                                "C01|provenance|record count differs from independent parse",
                                format!("{sec}: {} vs {} on {}", cv.len(), iv.len(), hex(data)),
                            ));
                            continue;
                        }
                        for (c, i) in cv.iter().zip(iv.iter()) {
                            if let Err(e) = rec_agrees(c, i, is_resp) {
                                res.viols.push(viol(
                                    "C01|provenance|record differs from independent parse",
                                    format!("{sec}: {e} on {}", hex(data)),
                                ));
                            }
                        }
                    }
                }
                Err(_) => {
                    res.count("only_crate_accepts", 1);
                    for r in m
                        .answers
                        .iter()
                        .chain(m.authorities.iter())
                        .chain(m.additionals.iter())
                    {
                        let ok = match &r.rdata {
                            wire::RData::A(a) => contains(data, &a.octets()),
                            wire::RData::Aaaa(a) => contains(data, &a.octets()),
                            wire::RData::Txt(t) => contains(data, t),
                            _ => true,
                        };
                        if !ok {
                            res.viols.push(viol(
                                "C01|provenance|rdata bytes not in datagram",
                                format!("{:?} on {}", r, hex(data)),
                            ));
                        }
                    }
                    for nm in names_of(&m) {
                        for l in nm.split('.').filter(|l| !l.is_empty()) {
                            if l.len() < 64 {
                                let mut lp = vec![l.len() as u8];
                                lp.extend(l.as_bytes());
                                // a label containing '.' is split by this view; then only
                                // require the bytes themselves
                                if !contains(data, &lp) && !contains(data, l.as_bytes()) {
                                    res.viols.push(viol(
                                        "C01|provenance|label not in datagram",
                                        format!("{:?} on {}", l, hex(data)),
                                    ));
                                }
                            }
                        }
                    }
                }
            }
            h = 4 + (crate::sim::fnv128(format!("{m:?}").as_bytes()) >> 8);
        }
    }
    res.outcome = res.outcome.wrapping_mul(31).wrapping_add(h);
    if h > 3 {
        res.count("distinct_decodings_hashed", 1);
    }
}

// ------------------------------------------------------------------ E1

fn nth_string(alpha: &[u8], max_len: usize, mut idx: u64) -> Vec<u8> {
    let k = alpha.len() as u64;
    let mut len = 0usize;
    let mut block = 1u64;
    while idx >= block {
        idx -= block;
        block *= k;
        len += 1;
        assert!(len <= max_len);
    }
    let mut v = Vec::with_capacity(len);
    for _ in 0..len {
        v.push(alpha[(idx % k) as usize]);
        idx /= k;
    }
    v
}

fn count_strings(k: usize, max_len: usize) -> u64 {
    let mut n = 0u64;
    let mut b = 1u64;
    for _ in 0..=max_len {
        n += b;
        b *= k as u64;
    }
    n
}

/// The six header/context variants the enumerated string is embedded in.
pub fn e1_packet(variant: u64, body: &[u8]) -> Vec<u8> {
    let qtail = [0x00, 0x0C, 0x00, 0x01];
    match variant {
        0 => {
            let mut p = header(0xC000, 0, 1, 0, 0, 0);
            p.extend(body);
            p.extend(qtail);
            p
        }
        1 => {
            let mut p = header(0xC00C, 0, 2, 0, 0, 0);
            p.extend(body);
            p.extend(qtail);
            p.extend([0xC0, 0x0C]);
            p.extend(qtail);
            p
        }
        2 => {
            let mut p = header(0xC000, 0x8400, 0, 1, 0, 0);
            p.extend(body);
            p.extend([0, 1, 0x80, 1, 0, 0, 0, 120, 0, 4, 10, 0, 0, 9]);
            p
        }
        3 => {
            let mut p = header(0xC00C, 0x8400, 0, 1, 0, 0);
            p.extend([1, b'a', 0]);
            p.extend([0, 12, 0, 1, 0, 0, 0, 120]);
            p.extend((body.len() as u16).to_be_bytes());
            p.extend(body);
            p
        }
        4 => {
            let mut p = header(0xC00F, 0x8400, 0, 1, 0, 0);
            p.extend([1, b'a', 0]);
            p.extend([0, 33, 0x80, 1, 0, 0, 0, 120]);
            p.extend((body.len() as u16 + 6).to_be_bytes());
            p.extend([0, 0, 0, 0, 0, 80]);
            p.extend(body);
            p
        }
        _ => {
            let mut p = header(0xC00C, 0x8400, 0, 0, 0, 1);
            p.extend([1, b'a', 0]);
            p.extend([0, 47, 0x80, 1, 0, 0, 0, 120]);
            p.extend((body.len() as u16 + 3).to_be_bytes());
            p.extend(body);
            p.extend([0, 1, 0x40]);
            p
        }
    }
}

const SIGMA_Q: [u8; 9] = [0x00, 0x01, 0x02, 0x3F, 0x61, 0x2E, 0xC0, 0x0C, 0xFF];
const SIGMA_T: [u8; 13] = [
    0x00, 0x01, 0x02, 0x3F, 0x40, 0x61, 0x2E, 0x5C, 0x80, 0xC0, 0x0C, 0x0D, 0xFF,
];

// ------------------------------------------------------------------ E2

fn owner_shapes() -> Vec<Vec<u8>> {
    let mut v: Vec<Vec<u8>> = vec![
        vec![0],
        vec![1, b'a', 0],
        name_bytes(&n("a.local")),
        name_bytes(&n("_t._tcp.local")),
        vec![0xC0, 0x00],
        vec![0xC0, 0x0C],
        vec![0xC0, 0x02],
        vec![1, b'a', 0xC0, 0x0C],
        vec![0x3F],
        vec![0x40, 0],
        vec![1, 0xFF, 0],
        vec![2, b'a', b'.', 0],
    ];
    v.push(vec![1, b'\\', 0]);
    v
}

const E2_TYPES: [u16; 11] = [1, 5, 12, 13, 16, 28, 33, 47, 255, 0, 65535];
const E2_CLASSES: [u16; 2] = [1, 0x8001];
const E2_TTLS: [u32; 4] = [0, 1, 0x8000_0000, 0xFFFF_FFFF];

fn e2_rdlens(true_len: usize) -> Vec<u16> {
    let mut v: Vec<u16> = vec![0, 1, 2, 3, 4, 6, 7, 15, 16, 17, 255, 65535];
    v.push(true_len as u16);
    v.push(true_len as u16 + 1);
    v.push((true_len as u16).saturating_sub(1));
    v
}

// ------------------------------------------------------------------ corpus for E4

pub fn corpus() -> Vec<Vec<u8>> {
    let ty = n("_t._tcp.local");
    let inst = n("inst._t._tcp.local");
    let host = n("host.local");
    let mut v = vec![];
    let full = response(vec![
        ptr(&ty, &inst, 4500),
        srv(&inst, &host, 80, 120),
        txt(&inst, &txt_rdata(&[(b"k", Some(b"v")), (b"b", None)]), 4500),
        a(&host, [10, 0, 0, 9], 120),
    ]);
    v.push(build(&full));
    v.push(build(&query(vec![(ty.clone(), T_PTR)])));
    v.push(build(&query(vec![
        (inst.clone(), T_ANY),
        (host.clone(), T_ANY),
    ])));
    let mut probe = query(vec![(inst.clone(), T_ANY)]);
    probe.authorities = vec![srv(&inst, &host, 80, 120), a(&host, [10, 0, 0, 9], 120)];
    v.push(build(&probe));
    let mut ka = query(vec![(ty.clone(), T_PTR)]);
    ka.answers = vec![ptr(&ty, &inst, 3000)];
    v.push(build(&ka));
    v.push(build(&response(vec![aaaa(
        &host,
        "fe80::1".parse().unwrap(),
        120,
    )])));
    let nsec = Record {
        name: inst.clone(),
        rtype: T_NSEC,
        class: C_IN,
        flush: true,
        ttl: 120,
        rd: RD::Nsec {
            next: inst.clone(),
            rest: vec![0, 1, 0x40],
        },
    };
    let mut m = response(vec![srv(&inst, &host, 80, 120)]);
    m.additionals = vec![nsec, a(&host, [10, 0, 0, 9], 120)];
    v.push(build(&m));
    // HINFO
    let hinfo = Record {
        name: host.clone(),
        rtype: T_HINFO,
        class: C_IN,
        flush: false,
        ttl: 120,
        rd: RD::Other(vec![3, b'c', b'p', b'u', 2, b'o', b's']),
    };
    v.push(build(&response(vec![hinfo])));
    // crate-encoded (with compression)
    let mut o = wire::Out::new(0x8400);
    o.add_answer(&wire::Rec::new(
        "_t._tcp.local.",
        1,
        4500,
        wire::RData::Ptr("inst._t._tcp.local.".into()),
    ));
    o.add_answer(&wire::Rec::new(
        "inst._t._tcp.local.",
        0x8001,
        120,
        wire::RData::Srv {
            priority: 0,
            weight: 0,
            port: 80,
            host: "host.local.".into(),
        },
    ));
    o.add_additional(&wire::Rec::new(
        "host.local.",
        0x8001,
        120,
        wire::RData::A("10.0.0.9".parse().unwrap()),
    ));
    v.extend(o.to_packets());
    let mut o = wire::Out::new(0);
    o.add_question("_t._tcp.local.", 12);
    o.add_question("_u._udp.local.", 12);
    o.add_answer(&wire::Rec::new(
        "_t._tcp.local.",
        1,
        4000,
        wire::RData::Ptr("inst._t._tcp.local.".into()),
    ));
    v.extend(o.to_packets());
    // goodbye, unknown type, trailing garbage
    v.push(build(&response(vec![ptr(&ty, &inst, 0)])));
    let unk = Record {
        name: host.clone(),
        rtype: 99,
        class: C_IN,
        flush: false,
        ttl: 5,
        rd: RD::Other(vec![1, 2, 3]),
    };
    v.push(build(&response(vec![unk, a(&host, [10, 0, 0, 1], 5)])));
    let mut g = build(&full);
    g.extend([0xC0, 0x0C, 0xFF]);
    v.push(g);
    // the common empty TXT (one zero-length string) and a TXT with a zero-length string in the
    // middle, each followed by records in later sections
    let mut m = response(vec![ptr(&ty, &inst, 4500), txt(&inst, &[0], 4500)]);
    m.additionals = vec![srv(&inst, &host, 80, 120), a(&host, [10, 0, 0, 9], 120)];
    v.push(build(&m));
    let mut m = response(vec![txt(&inst, &[3, b'a', b'=', b'1', 0, 3, b'b', b'=', b'2'], 4500)]);
    m.authorities = vec![a(&host, [10, 0, 0, 9], 120)];
    m.additionals = vec![a(&host, [10, 0, 0, 10], 120)];
    v.push(build(&m));
    v
}

// ------------------------------------------------------------------ E5 size families

fn e5_cases() -> Vec<(String, Vec<u8>)> {
    let mut v = vec![];
    let qtail = [0x00u8, 0x0C, 0x00, 0x01];
    for &n_bytes in &[600usize, 2000, 4500, 8972, 9000] {
        // (a) backward pointer chain: question i points to question i-1
        {
            let k = (n_bytes - 12 - 6) / 6;
            let mut p = header(0, 0, (k + 1) as u16, 0, 0, 0);
            p.extend([1, b'a', 0]);
            p.extend(qtail);
            p.truncate(12 + 7);
            let mut prev = 12u16;
            for _ in 0..k {
                let here = p.len() as u16;
                p.extend((0xC000u16 | prev).to_be_bytes());
                p.extend(qtail);
                prev = here;
            }
            v.push((format!("pointer-chain n={}", p.len()), p));
        }
        // (b) interleaved label chains with strides, then questions pointing into them
        for &stride in &[2usize, 3, 8, 64] {
            let area = n_bytes.saturating_sub(12 + 6 * 64 + 8);
            if area < stride * 2 {
                continue;
            }
            let mut p = header(0, 0x8400, 0, 1, 0, 64.min(stride) as u16);
            // a TXT record whose RDATA is the label area
            p.extend([1, b'a', 0, 0, 16, 0, 1, 0, 0, 0, 120]);
            p.extend((area as u16).to_be_bytes());
            let base = p.len();
            let mut body = vec![(stride - 1) as u8; area];
            // terminate every chain inside the area
            let tail_start = area - stride;
            for b in body[tail_start..].iter_mut() {
                *b = 0;
            }
            p.extend(body);
            for j in 0..64.min(stride) {
                p.extend((0xC000u16 | (base + j) as u16).to_be_bytes());
                p.extend([0, 1, 0, 1, 0, 0, 0, 5, 0, 4, 1, 2, 3, 4]);
            }
            v.push((
                format!("label-chains stride={} n={}", stride, p.len()),
                p,
            ));
        }
        // (c) 0xFFFF counts over a tiny body
        {
            let mut p = header(0, 0x8400, 0xFFFF, 0xFFFF, 0xFFFF, 0xFFFF);
            p.extend(vec![0u8; n_bytes.min(600) - 12]);
            v.push((format!("ffff-counts n={}", p.len()), p));
        }
        // (d) one long name then n records pointing at it
        {
            let mut p = header(0, 0x8400, 0, 0, 0, 0);
            let mut nm = vec![];
            for _ in 0..3 {
                nm.push(63u8);
                nm.extend(vec![b'x'; 63]);
            }
            nm.push(0);
            let k = (n_bytes - 12 - nm.len() - 14) / 16;
            p[7] = ((k + 1) & 0xFF) as u8;
            p[6] = ((k + 1) >> 8) as u8;
            p.extend(&nm);
            p.extend([0, 1, 0, 1, 0, 0, 0, 5, 0, 4, 1, 2, 3, 4]);
            for _ in 0..k {
                p.extend([0xC0, 0x0C, 0, 1, 0, 1, 0, 0, 0, 5, 0, 4, 1, 2, 3, 4]);
            }
            v.push((format!("long-name-many-pointers n={}", p.len()), p));
        }
        // (e) chain of names each ending in a pointer to the previous (name length grows)
        {
            let mut p = header(0, 0, 0, 0, 0, 0);
            let mut prev: Option<u16> = None;
            let mut q = 0u16;
            while p.len() + 70 < n_bytes {
                let here = p.len() as u16;
                p.push(63);
                p.extend(vec![b'y'; 63]);
                match prev {
                    Some(o) => p.extend((0xC000u16 | o).to_be_bytes()),
                    None => p.push(0),
                }
                p.extend(qtail);
                prev = Some(here);
                q += 1;
            }
            p[4] = (q >> 8) as u8;
            p[5] = (q & 0xFF) as u8;
            v.push((format!("growing-names n={}", p.len()), p));
        }
    }
    // (f) one name that walks the same label area several times, each pass one phase (2 bytes)
    // further and ending in a backward pointer to the next phase: far longer than the datagram,
    // no cycle.  The phases start at offsets 0x27E.., so that the pointers between them
    // (0xC2 0x80..) are valid UTF-8 inside the labels of the later passes that run over them.
    for (passes, m) in [(8usize, 8usize), (20, 4), (30, 2)] {
        let first = 0x27Eusize;
        let mut p = header(0, 0x8400, 0, 1, 0, 1);
        p.extend([1, b'a', 0, 0, 16, 0, 1, 0, 0, 0, 120]);
        let base = p.len() + 2;
        let end = first + 64 * m + 2 * passes;
        let area = end - base;
        p.extend((area as u16).to_be_bytes());
        let mut body = vec![63u8; area];
        for j in 0..passes {
            let at = first + 2 * j + 64 * m - base;
            if j + 1 < passes {
                let to = (first + 2 * (j + 1)) as u16;
                body[at] = 0xC0 | (to >> 8) as u8;
                body[at + 1] = (to & 0xFF) as u8;
            } else {
                body[at] = 0;
                body[at + 1] = 0;
            }
        }
        p.extend(body);
        p.extend((0xC000u16 | first as u16).to_be_bytes());
        p.extend([0, 1, 0, 1, 0, 0, 0, 5, 0, 4, 1, 2, 3, 4]);
        v.push((format!("one-name-walking-a-label-area-{passes}-times n={}", p.len()), p));
    }
    v
}

// ---------------------------------------------------------------- through the daemon's receive path

/// Every prefix of every corpus packet is handed to a live daemon (browse open, accept_unsolicited
/// on, so that whatever decodes is cached).  A prefix the independent parser rejects must leave the
/// cache as it was: the daemon may only ever decode the bytes that were received, not what its
/// receive buffer holds behind them.
fn run_receive_path(pk: usize, trace: bool) -> CaseResult {
    use crate::scn::*;
    use crate::sim::*;
    let mut res = CaseResult::default();
    let p = corpus().swap_remove(pk);
    let mut w = World::one(lay_v4());
    w.trace = trace;
    w.ds[0].h.set_ip_check_interval(0).unwrap();
    w.ds[0].h.accept_unsolicited(true).unwrap();
    let rx = w.ds[0].h.browse("_t._tcp.local.").unwrap();
    let ch = w.add_browse(0, rx);
    w.poke(0);
    const KEYS: [&str; 6] = ["cached-ptr", "cached-srv", "cached-txt", "cached-addr", "cached-nsec", "cached-subtype"];
    let snap = |w: &mut World| -> Vec<i64> { let m = w.metrics(0).unwrap_or_default(); KEYS.iter().map(|k| m.get(*k).copied().unwrap_or(0)).collect() };
    for cut in 0..p.len() {
        let prefix = p[..cut].to_vec();
        if indep::parse(&prefix).is_ok() {
            continue; // a prefix that is a message of its own
        }
        let before = snap(&mut w);
        let ev_before = bevs(&w, 0, ch, 0).len();
        w.deliver(0, IF0, PEER0, prefix.clone());
        res.transitions += 1;
        res.count("rejected_prefixes_delivered", 1);
        let after = snap(&mut w);
        let ev_after = bevs(&w, 0, ch, 0).len();
        if after != before || ev_after != ev_before {
            res.viols.push(viol(
                "C01|receive-path|records-taken-from-a-datagram-that-does-not-hold-them",
                format!("corpus packet {pk} cut to {cut} of {} bytes ({}): cache {:?} -> {:?}, browse events {} -> {}", p.len(), truncate(&hex(&prefix), 160), before, after, ev_before, ev_after),
            ));
            break;
        }
        if let Some(f) = daemon_fault(&w, 0) {
            res.viols.push(viol(format!("C01|receive-path|daemon-fault|{}", panic_sig(&f)), format!("corpus packet {pk} cut to {cut} bytes: {f}")));
            break;
        }
    }
    res.nontrivial = true;
    res.outcome = outcome_hash(&w.log);
    res.states = final_states(&w);
    res
}

pub fn check(tier: &str) -> i32 {
    let mut rep = Report::new("C01", tier, "exploration");
    rep.case_limit = Duration::from_secs(30);
    let thorough = rep.thorough();
    rep.assume("the fuel counter sees the three instrumented decoder loops (read_name, read_questions, read_rr_records); a loop elsewhere that never ends is caught by the real-time watchdog (30 s per case) instead");
    rep.assume("the independent parser (harness/src/indep.rs) is a correct RFC 1035 reader");

    // E1
    let (sigma, maxlen): (&[u8], usize) = if thorough {
        (&SIGMA_T, 7)
    } else {
        (&SIGMA_T, 6)
    };
    let per = count_strings(sigma.len(), maxlen);
    let e1 = FnPart {
        name: "E1-strings-after-header".into(),
        rule: format!(
            "every string over {} bytes {:02x?} up to length {} embedded in 6 header/record contexts; every case is non-trivial (reaches the name reader)",
            sigma.len(), sigma, maxlen
        ),
        n: per * 6,
        describe: Box::new(move |i| {
            let b = nth_string(sigma, maxlen, i % per);
            format!("variant {} body {} => {}", i / per, hex(&b), hex(&e1_packet(i / per, &b)))
        }),
        run: Box::new(move |i, _| {
            let mut r = CaseResult {
                nontrivial: true,
                ..Default::default()
            };
            let b = nth_string(sigma, maxlen, i % per);
            check_datagram(&e1_packet(i / per, &b), &mut r);
            r
        }),
    };
    rep.run_part(&e1, Duration::from_secs(if thorough { 1500 } else { 40 }));

    // E2
    let owners = owner_shapes();
    let rd_max = if thorough { 4 } else { 2 };
    let rd_count = count_strings(SIGMA_Q.len(), rd_max);
    let dims = [
        owners.len() as u64,
        E2_TYPES.len() as u64,
        2,
        E2_TTLS.len() as u64,
        15,
        rd_count,
        2,
        3,
    ];
    let e2_build = |i: u64| -> Vec<u8> {
        let x = unrank(i, &dims);
        let rdata = nth_string(&SIGMA_Q, rd_max, x[5]);
        let rdl = e2_rdlens(rdata.len())[x[4] as usize];
        let mut counts = [0u16; 3];
        counts[x[7] as usize] = 1;
        let mut p = header(0, 0x8400, 0, counts[0], counts[1], counts[2]);
        p.extend(&owners[x[0] as usize]);
        p.extend(E2_TYPES[x[1] as usize].to_be_bytes());
        p.extend(E2_CLASSES[x[2] as usize].to_be_bytes());
        p.extend(E2_TTLS[x[3] as usize].to_be_bytes());
        p.extend(rdl.to_be_bytes());
        p.extend(&rdata);
        if x[6] == 1 {
            p.push(0);
        }
        p
    };
    let e2 = FnPart {
        name: "E2-one-record-grammar".into(),
        rule: format!("owner shape x type x class x ttl x rdlength (absolute and relative to the true length) x rdata over 9 bytes up to length {rd_max} x trailing byte x section"),
        n: product(&dims),
        describe: Box::new(|i| hex(&e2_build(i))),
        run: Box::new(|i, _| {
            let mut r = CaseResult {
                nontrivial: true,
                ..Default::default()
            };
            check_datagram(&e2_build(i), &mut r);
            r
        }),
    };
    rep.run_part(&e2, Duration::from_secs(if thorough { 900 } else { 40 }));

    // E3: two-record pointer graphs
    let first = {
        let mut p = vec![];
        p.extend(name_bytes(&n("ab.local")));
        p.extend([0, 12, 0, 1, 0, 0, 0, 120]);
        let rd = name_bytes(&n("x.ab.local"));
        p.extend((rd.len() as u16).to_be_bytes());
        p.extend(rd);
        p
    };
    let span = (12 + first.len() + 24) as u64;
    let e3_build = |i: u64| -> Vec<u8> {
        let x = unrank(i, &[span, 5, 2, 2]);
        let target = x[0] as u16;
        let mut nm = vec![];
        if x[2] == 1 {
            nm.extend([1, b'z']);
        }
        nm.extend((0xC000 | target).to_be_bytes());
        let mut p = header(0xC00C, 0x8400, 0, 2, 0, 0);
        p.extend(&first);
        let plain = name_bytes(&n("q.local"));
        match x[1] {
            0 => {
                p.extend(&nm);
                p.extend([0, 1, 0, 1, 0, 0, 0, 5, 0, 4, 1, 2, 3, 4]);
            }
            1 => {
                p.extend(&plain);
                p.extend([0, 12, 0, 1, 0, 0, 0, 5]);
                p.extend((nm.len() as u16).to_be_bytes());
                p.extend(&nm);
            }
            2 => {
                p.extend(&plain);
                p.extend([0, 33, 0, 1, 0, 0, 0, 5]);
                p.extend((nm.len() as u16 + 6).to_be_bytes());
                p.extend([0, 0, 0, 0, 0, 80]);
                p.extend(&nm);
            }
            3 => {
                p.extend(&plain);
                p.extend([0, 47, 0, 1, 0, 0, 0, 5]);
                p.extend((nm.len() as u16 + 3).to_be_bytes());
                p.extend(&nm);
                p.extend([0, 1, 0x40]);
            }
            _ => {
                // 2-cycle: two names pointing at each other inside a TXT blob, owner points in
                p.extend(&plain);
                p.extend([0, 16, 0, 1, 0, 0, 0, 5, 0, 4]);
                let here = p.len() as u16;
                p.extend((0xC000 | (here + 2)).to_be_bytes());
                p.extend((0xC000 | here).to_be_bytes());
                p[7] = 3;
                p.extend((0xC000 | if x[0] % 2 == 0 { here } else { target }).to_be_bytes());
                p.extend([0, 1, 0, 1, 0, 0, 0, 5, 0, 4, 1, 2, 3, 4]);
            }
        }
        if x[3] == 1 {
            p.push(0);
        }
        p
    };
    let e3 = FnPart {
        name: "E3-pointer-graphs".into(),
        rule: "second record's owner / PTR target / SRV target / NSEC next name is a pointer to every offset of the header and first record, itself, forward, and into a 2-cycle".into(),
        n: span * 5 * 2 * 2,
        describe: Box::new(|i| hex(&e3_build(i))),
        run: Box::new(|i, _| {
            let mut r = CaseResult {
                nontrivial: true,
                ..Default::default()
            };
            check_datagram(&e3_build(i), &mut r);
            r
        }),
    };
    rep.run_part(&e3, Duration::from_secs(60));

    // E4: mutation neighbourhood
    let corp = corpus();
    let mut offs = vec![0u64];
    for c in &corp {
        let l = c.len() as u64;
        offs.push(offs.last().unwrap() + (l + 1) + l * 256);
    }
    let e4_build = |i: u64| -> Vec<u8> {
        let k = offs.partition_point(|&o| o <= i) - 1;
        let c = &corp[k];
        let j = i - offs[k];
        let l = c.len() as u64;
        if j <= l {
            c[..j as usize].to_vec()
        } else {
            let j = j - (l + 1);
            let mut m = c.clone();
            m[(j / 256) as usize] = (j % 256) as u8;
            m
        }
    };
    let e4 = FnPart {
        name: "E4-mutation-neighbourhood".into(),
        rule: format!("every truncation and every single-byte substitution (256 values) of {} corpus packets (independently built and crate-encoded)", corp.len()),
        n: *offs.last().unwrap(),
        describe: Box::new(|i| hex(&e4_build(i))),
        run: Box::new(|i, _| {
            let mut r = CaseResult {
                nontrivial: true,
                ..Default::default()
            };
            check_datagram(&e4_build(i), &mut r);
            r
        }),
    };
    rep.run_part(&e4, Duration::from_secs(if thorough { 600 } else { 40 }));

    // E5
    let fam = e5_cases();
    let e5 = FnPart {
        name: "E5-size-families".into(),
        rule: "pointer chains, interleaved label chains, 0xFFFF counts, long shared name, growing names, one name that walks a label area eight times through backward pointers, at sizes 600..9000".into(),
        n: fam.len() as u64,
        describe: Box::new(|i| format!("{} {}", fam[i as usize].0, truncate(&hex(&fam[i as usize].1), 120))),
        run: Box::new(|i, _| {
            let mut r = CaseResult {
                nontrivial: true,
                ..Default::default()
            };
            let t = std::time::Instant::now();
            check_datagram(&fam[i as usize].1, &mut r);
            if t.elapsed() > Duration::from_secs(2) {
                r.viols.push(viol(
                    "C01|slow-decode|more than 2 s for one datagram",
                    fam[i as usize].0.clone(),
                ));
            }
            r
        }),
    };
    rep.run_part(&e5, Duration::from_secs(120));
    rep.require("E1-strings-after-header", "accepted");
    rep.require("E1-strings-after-header", "rejected");
    rep.require("E2-one-record-grammar", "both_accept");
    rep.require("E4-mutation-neighbourhood", "both_accept");
    let ncorp = corpus().len() as u64;
    let rp = FnPart {
        name: "S-receive-path-prefixes".into(),
        rule: "every corpus packet cut to every shorter length, delivered to a live daemon (browse open, accept_unsolicited on): a prefix the independent parser rejects must change neither the cache nor the browse channel, and the daemon must survive".into(),
        n: ncorp,
        describe: Box::new(|i| format!("corpus packet {i}")),
        run: Box::new(|i, tr| run_receive_path(i as usize, tr)),
    };
    rep.run_part(&rp, Duration::from_secs(120));
    rep.require("S-receive-path-prefixes", "rejected_prefixes_delivered");
    rep.finish()
}
