//! C19 — repeated queries back off: 1 s, 2 s, 4 s ... capped at one hour (Engine S).
use crate::fw::*;
use crate::indep::*;
use crate::scn::*;
use crate::sim::*;
use std::time::Duration;

#[derive(Clone, Copy, Debug, PartialEq)]
enum Op {
    BrowseT1,
    BrowseT1AgainDropOld,
    BrowseCacheT1,
    BrowseT2,
    ResolveH1,
    ResolveH1UpperAgain,
    ResolveH1Timeout5s,
    StopT1,
    StopH1,
    DeliverT1Ttl120,
    DeliverT1Ttl4500,
    DeliverH1Addr,
    /// disable_interface(All) / enable_interface(All): no interface for a while
    DisableAll,
    EnableAll,
}
const OPS: [Op; 12] = [
    Op::BrowseT1,
    Op::BrowseT1AgainDropOld,
    Op::BrowseCacheT1,
    Op::BrowseT2,
    Op::ResolveH1,
    Op::ResolveH1UpperAgain,
    Op::ResolveH1Timeout5s,
    Op::StopT1,
    Op::StopH1,
    Op::DeliverT1Ttl120,
    Op::DeliverT1Ttl4500,
    Op::DeliverH1Addr,
];
const OFFSETS: [u64; 4] = [0, 500, 1500, 10_000];

#[derive(Clone, Copy, PartialEq, Debug)]
enum Key {
    T1,
    T2,
    H1,
}

/// Query times the schedule allows for a search started at `s` and ended (stopped or replaced)
/// at `e` (inclusive: a retransmission due in the very millisecond of the stop fires first).
fn schedule(s: u64, e: u64) -> Vec<u64> {
    let mut v = vec![];
    let mut t = s;
    let mut delay = 1u64;
    while t <= e {
        v.push(t);
        t += delay * 1000;
        delay = (delay * 2).min(3600);
    }
    v
}

fn run_case(seq: &[(Op, u64)], horizon: u64, trace: bool) -> CaseResult {
    let mut res = CaseResult::default();
    let mut w = World::one(lay_v4());
    w.trace = trace;
    w.ds[0].h.set_ip_check_interval(0).unwrap();
    w.poke(0);
    let i1 = Inst::simple("inst", "srvhost", [10, 0, 0, 9]);
    // bookkeeping: per key, list of (start, end) search instances; deliveries
    let mut searches: Vec<(Key, u64, Option<u64>)> = vec![];
    let mut ptr_arrivals: Vec<(u64, u64)> = vec![]; // (arrival, ttl ms) for T1 PTR cached
    let mut addr_arrivals: Vec<(u64, u64)> = vec![];
    let mut t1_chans: Vec<usize> = vec![];
    let open = |searches: &Vec<(Key, u64, Option<u64>)>, k: Key| searches.iter().rposition(|s| s.0 == k && s.2.is_none());
    // hostname searches with a timeout end by themselves: (index into `searches`, deadline)
    let mut deadlines: Vec<(usize, u64)> = vec![];
    // a cache-only browse of T1 takes over the listener without starting a search: whether the
    // earlier search goes on asking afterwards is left open (index into `searches`, from when)
    let mut optional_from: Vec<(usize, u64)> = vec![];
    // periods in which somebody listens to T1 (search or cache-only), for the refresh exemption
    let mut cache_listen: Vec<(u64, Option<u64>)> = vec![];
    // periods without any interface: what falls due then cannot be seen on the wire
    let mut down: Vec<(u64, Option<u64>)> = vec![];
    // moments an interface appeared while searches were open: one query each is allowed then
    let mut appeared: Vec<u64> = vec![];
    for (op, off) in seq {
        w.advance(*off);
        let now = w.now;
        for (idx, d) in &deadlines {
            if searches[*idx].2.is_none() && *d <= now {
                searches[*idx].2 = Some(*d);
            }
        }
        match op {
            Op::BrowseT1 | Op::BrowseT1AgainDropOld => {
                if *op == Op::BrowseT1AgainDropOld {
                    for ch in t1_chans.drain(..) {
                        w.drop_browse(0, ch);
                    }
                }
                if let Some(p) = open(&searches, Key::T1) {
                    searches[p].2 = Some(now);
                }
                let rx = w.ds[0].h.browse("_t._tcp.local.").unwrap();
                t1_chans.push(w.add_browse(0, rx));
                searches.push((Key::T1, now, None));
                w.poke(0);
            }
            Op::BrowseCacheT1 => {
                if let Some(p) = open(&searches, Key::T1) {
                    optional_from.push((p, now));
                }
                let rx = w.ds[0].h.browse_cache("_t._tcp.local.").unwrap();
                t1_chans.push(w.add_browse(0, rx));
                cache_listen.push((now, None));
                w.poke(0);
            }
            Op::BrowseT2 => {
                if let Some(p) = open(&searches, Key::T2) {
                    searches[p].2 = Some(now);
                }
                let rx = w.ds[0].h.browse("_u._udp.local.").unwrap();
                w.add_browse(0, rx);
                searches.push((Key::T2, now, None));
                w.poke(0);
            }
            Op::ResolveH1 | Op::ResolveH1UpperAgain | Op::ResolveH1Timeout5s => {
                if let Some(p) = open(&searches, Key::H1) {
                    searches[p].2 = Some(now);
                }
                let to = if *op == Op::ResolveH1Timeout5s { Some(5000) } else { None };
                let rx = w.ds[0].h.resolve_hostname(if *op == Op::ResolveH1UpperAgain { "H1.local." } else { "h1.local." }, to).unwrap();
                w.add_host(0, rx);
                searches.push((Key::H1, now, None));
                if to.is_some() {
                    deadlines.push((searches.len() - 1, now + 5000));
                }
                w.poke(0);
            }
            Op::StopT1 => {
                if let Some(p) = open(&searches, Key::T1) {
                    searches[p].2 = Some(now);
                    ptr_arrivals.clear(); // stop_browse forgets the cache
                }
                for c in cache_listen.iter_mut().filter(|c| c.1.is_none()) {
                    c.1 = Some(now);
                    ptr_arrivals.clear();
                }
                w.ds[0].h.stop_browse("_t._tcp.local.").unwrap();
                w.poke(0);
            }
            Op::StopH1 => {
                if let Some(p) = open(&searches, Key::H1) {
                    searches[p].2 = Some(now);
                }
                w.ds[0].h.stop_resolve_hostname("h1.local.").unwrap();
                w.poke(0);
            }
            Op::DeliverT1Ttl120 | Op::DeliverT1Ttl4500 if down.last().is_some_and(|d| d.1.is_none()) => {}
            Op::DeliverH1Addr if down.last().is_some_and(|d| d.1.is_none()) => {}
            Op::DeliverT1Ttl120 | Op::DeliverT1Ttl4500 => {
                let ttl = if *op == Op::DeliverT1Ttl120 { 120 } else { 4500 };
                if open(&searches, Key::T1).is_some() || cache_listen.iter().any(|c| c.1.is_none()) {
                    ptr_arrivals.push((now, ttl as u64 * 1000));
                }
                w.deliver(0, IF0, PEER0, build(&response(i1.all(ttl))));
            }
            Op::DisableAll => {
                w.ds[0].h.disable_interface(mdns_sd::IfKind::All).unwrap();
                w.poke(0);
                if down.last().map_or(true, |d| d.1.is_some()) {
                    down.push((now, None));
                }
            }
            Op::EnableAll => {
                w.ds[0].h.enable_interface(mdns_sd::IfKind::All).unwrap();
                w.poke(0);
                if let Some(d) = down.last_mut().filter(|d| d.1.is_none()) {
                    d.1 = Some(now);
                    appeared.push(now);
                }
            }
            Op::DeliverH1Addr => {
                // an address record is cached whether or not a resolver is open yet
                addr_arrivals.push((now, 120_000));
                w.deliver(0, IF0, PEER0, build(&response(vec![a(&n("h1.local"), [10, 0, 0, 7], 120)])));
            }
        }
    }
    let end = w.now + horizon;
    w.run_until(end);
    for (idx, d) in &deadlines {
        if searches[*idx].2.is_none() && *d <= end {
            searches[*idx].2 = Some(*d);
        }
    }
    if let Some(f) = daemon_fault(&w, 0) {
        res.viols.push(viol("C19|daemon-fault", f));
    }
    let all = outs(&w, 0, 0);
    for key in [Key::T1, Key::T2, Key::H1] {
        let (nm, qt) = match key {
            Key::T1 => (n("_t._tcp.local"), T_PTR),
            Key::T2 => (n("_u._udp.local"), T_PTR),
            Key::H1 => (n("h1.local"), T_A),
        };
        let mut observed: Vec<u64> = all
            .iter()
            .filter(|(_, o)| o.msg.as_ref().is_ok_and(|m| !m.is_response() && asks(m, &nm, qt)))
            .map(|(t, _)| *t)
            .collect();
        observed.sort_unstable();
        let mut expected: Vec<u64> = vec![];
        let mut optional: Vec<u64> = vec![];
        let is_down = |t: u64| down.iter().any(|(a, b)| *a <= t && b.map_or(true, |b| t <= b));
        for (idx, (k, s, e)) in searches.iter().enumerate() {
            if *k == key {
                let from = optional_from.iter().filter(|o| o.0 == idx).map(|o| o.1).min();
                for t in schedule(*s, e.unwrap_or(end)) {
                    if is_down(t) {
                        // due while there was no interface: nothing can be seen (at the very moment
                        // of the change either way)
                        optional.push(t);
                        continue;
                    }
                    if from.is_some_and(|f| t >= f) {
                        optional.push(t);
                    } else {
                        expected.push(t);
                    }
                }
            }
        }
        expected.sort_unstable();
        // exempt: refresh marks of records the harness delivered while the search was open
        let mut exempt: Vec<u64> = vec![];
        let open_at = |t: u64| searches.iter().any(|(k, s, e)| *k == key && *s <= t && e.map_or(true, |e| t <= e)) || (key == Key::T1 && cache_listen.iter().any(|(s, e)| *s <= t && e.map_or(true, |e| t <= e)));
        // the one query sent when an interface appears, per search open at that moment
        for t in &appeared {
            if open_at(*t) {
                exempt.push(*t);
            }
        }
        match key {
            Key::T1 => {
                for (arr, life) in &ptr_arrivals {
                    // a later copy restarts the schedule: only the marks before the next arrival count
                    let next = ptr_arrivals.iter().map(|x| x.0).filter(|x| x > arr).min().unwrap_or(u64::MAX);
                    for p in [80u64, 85, 90, 95] {
                        let m = arr + life * p / 100;
                        if m < next && open_at(m) {
                            exempt.push(m);
                        }
                    }
                }
            }
            Key::H1 => {
                for (arr, life) in &addr_arrivals {
                    let next = addr_arrivals.iter().map(|x| x.0).filter(|x| x > arr).min().unwrap_or(u64::MAX);
                    let m = arr + life * 80 / 100;
                    if m < next && open_at(m) {
                        exempt.push(m);
                    }
                }
            }
            Key::T2 => {}
        }
        // remove expected from observed (multiset), then exempt ones
        let mut extra = observed.clone();
        let mut missing = vec![];
        for t in &expected {
            if let Some(p) = extra.iter().position(|x| x == t) {
                extra.remove(p);
            } else {
                missing.push(*t);
            }
        }
        for t in &optional {
            if let Some(p) = extra.iter().position(|x| x == t) {
                extra.remove(p);
                res.count("queries_of_a_search_whose_listener_a_cache_only_browse_took_over", 1);
            }
        }
        for t in &exempt {
            if let Some(p) = extra.iter().position(|x| x == t) {
                extra.remove(p);
                res.count("exempt_refresh_queries", 1);
            }
        }
        res.count("scheduled_queries_matched", (expected.len() - missing.len()) as u64);
        let rel = |v: &[u64]| v.iter().take(12).map(|t| (*t - T0) as f64 / 1000.0).collect::<Vec<_>>();
        if !extra.is_empty() {
            let ctx = if searches.iter().filter(|s| s.0 == key).count() > 1 { "after-repeated-search" } else if searches.iter().any(|s| s.0 == key && s.2.is_some()) { "after-stop" } else { "single-search" };
            res.viols.push(viol(
                format!("C19|query-more-often-than-the-schedule-allows|{key:?}|{ctx}"),
                format!("extra queries at {:?} s; searches {:?}; exempt {:?}; all observed {:?}", rel(&extra), searches.iter().filter(|s| s.0 == key).map(|s| ((s.1 - T0) as f64 / 1000.0, s.2.map(|e| (e - T0) as f64 / 1000.0))).collect::<Vec<_>>(), rel(&exempt), rel(&observed)),
            ));
        }
        if !missing.is_empty() {
            res.viols.push(viol(
                format!("C19|scheduled-query-missing|{key:?}"),
                format!("missing at {:?} s; observed {:?}", rel(&missing), rel(&observed)),
            ));
        }
    }
    res.nontrivial = !searches.is_empty();
    res.transitions = w.steps;
    res.outcome = outcome_hash(&w.log);
    res.states = final_states(&w);
    res
}

// ---------------------------------------------------------------- follow-ups for an instance that stays unresolved

/// A browse finds an instance by its PTR alone.  x = [offset of the PTR after the browse,
/// 0 nothing else ever arrives / 1 SRV+TXT arrive with the first follow-up but the address never,
/// 0 PTR once / 1 the same PTR again 300 ms later].  At most three follow-up queries for the instance
/// (then for its host), at least half a second apart.
fn run_followups(x: &[u64], trace: bool) -> CaseResult {
    let mut res = CaseResult::default();
    let mut w = World::one(lay_v4());
    w.trace = trace;
    w.ds[0].h.set_ip_check_interval(0).unwrap();
    w.poke(0);
    let rx = w.ds[0].h.browse("_t._tcp.local.").unwrap();
    w.add_browse(0, rx);
    w.poke(0);
    let i = Inst::simple("lonely", "lonelyhost", [10, 0, 0, 9]);
    w.advance([100u64, 600, 1400][x[0] as usize]);
    let t_found = w.now;
    w.deliver(0, IF0, PEER0, build(&response(vec![i.ptr(120)])));
    if x[2] == 1 {
        w.advance(300);
        w.deliver(0, IF0, PEER0, build(&response(vec![i.ptr(120)])));
    }
    let end = t_found + 60_000;
    let mut seen = 0usize;
    let mut answered = false;
    loop {
        // variant 1: the first question about the instance is answered with SRV and TXT only
        if x[1] == 1 && !answered {
            let asked = w.log[seen..].iter().any(|e| matches!(&e.kind, Kind::Out(o) if o.msg.as_ref().is_ok_and(|m| !m.is_response() && m.questions.iter().any(|q| name_eq_ci(&q.name, &i.inst)))));
            seen = w.log.len();
            if asked {
                answered = true;
                w.deliver(0, IF0, PEER0, build(&response(vec![i.srv(120), i.txt(120)])));
                continue;
            }
        }
        if !w.wake_next(end) {
            break;
        }
    }
    let all = outs(&w, 0, 0);
    for (what, nm) in [("instance", &i.inst), ("host", &i.host)] {
        let times: Vec<u64> = all.iter().filter(|(t, o)| *t >= t_found && o.msg.as_ref().is_ok_and(|m| !m.is_response() && m.questions.iter().any(|q| name_eq_ci(&q.name, nm)))).map(|(t, _)| *t).collect();
        res.count("follow_up_chains_checked", 1);
        let rel: Vec<f64> = times.iter().map(|t| (*t - t_found) as f64 / 1000.0).collect();
        if times.len() > 3 {
            res.viols.push(viol(format!("C19|more-than-three-follow-up-queries|{what}"), format!("{} queries about the {what} at {:?} s after it was found", times.len(), rel)));
        }
        if times.windows(2).any(|p| p[1] - p[0] < 500) {
            res.viols.push(viol(format!("C19|follow-up-queries-less-than-half-a-second-apart|{what}"), format!("at {:?} s", rel)));
        }
    }
    if let Some(f) = daemon_fault(&w, 0) {
        res.viols.push(viol("C19|daemon-fault", f));
    }
    res.nontrivial = true;
    res.transitions = w.steps;
    res.outcome = outcome_hash(&w.log);
    res.states = final_states(&w);
    res
}

pub fn check(tier: &str) -> i32 {
    let mut rep = Report::new("C19", tier, "model_checking");
    let thorough = rep.thorough();
    rep.assume("exempt queries are exactly those the harness can name from what it did: refresh marks (80/85/90/95 % for a browsed PTR, 80 % for a resolved address) of records it delivered while the search was open");
    let depth = if thorough { 3 } else { 2 };
    let m = (OPS.len() * OFFSETS.len()) as u64;
    let mut nseq = 0u64;
    let mut b = 1u64;
    for _ in 0..=depth {
        nseq += b;
        b *= m;
    }
    let seq_of = move |mut idx: u64| -> Vec<(Op, u64)> {
        let mut len = 0;
        let mut block = 1u64;
        while idx >= block {
            idx -= block;
            block *= m;
            len += 1;
        }
        (0..len)
            .map(|_| {
                let x = idx % m;
                idx /= m;
                (OPS[(x / OFFSETS.len() as u64) as usize], OFFSETS[(x % OFFSETS.len() as u64) as usize])
            })
            .collect()
    };
    let horizon = 3 * 24 * 3600 * 1000u64;
    let part = FnPart {
        name: "search-combinations-3-days".into(),
        rule: format!("every sequence of <= {depth} (operation, offset) pairs over {} operations x offsets {{0, 0.5, 1.5, 10 s}}, then 3 virtual days; per question the observed query times minus the schedule minus the exempt refreshes must be empty, and nothing scheduled may be missing; non-trivial = at least one search was started", OPS.len()),
        n: nseq,
        describe: Box::new(move |i| format!("{:?}", seq_of(i))),
        run: Box::new(move |i, tr| run_case(&seq_of(i), horizon, tr)),
    };
    rep.run_part(&part, Duration::from_secs(if thorough { 3000 } else { 50 }));
    rep.require("search-combinations-3-days", "scheduled_queries_matched");
    rep.require("search-combinations-3-days", "exempt_refresh_queries");
    // deeper, on one type only: repeated, cache-only and stopped browses of the same type
    const T1OPS: [Op; 6] = [Op::BrowseT1, Op::BrowseT1AgainDropOld, Op::BrowseCacheT1, Op::StopT1, Op::DeliverT1Ttl120, Op::BrowseT2];
    const T1OFFS: [u64; 3] = [300, 500, 1500];
    let tdepth = if thorough { 5 } else { 4 };
    let tm = (T1OPS.len() * T1OFFS.len()) as u64;
    let tn = tm.pow(tdepth);
    let tseq = move |mut idx: u64| -> Vec<(Op, u64)> {
        (0..tdepth)
            .map(|_| {
                let x = idx % tm;
                idx /= tm;
                (T1OPS[(x / T1OFFS.len() as u64) as usize], T1OFFS[(x % T1OFFS.len() as u64) as usize])
            })
            .collect()
    };
    let one = FnPart {
        name: "one-type-browsed-again-and-again".into(),
        rule: format!("every sequence of exactly {tdepth} (operation, offset) pairs over browse / browse again with the old receiver dropped / cache-only browse / stop / a delivered answer / a browse of another type x offsets {{0.3, 0.5, 1.5 s}}, then 1 virtual day; same oracle"),
        n: tn,
        describe: Box::new(move |i| format!("{:?}", tseq(i))),
        run: Box::new(move |i, tr| run_case(&tseq(i), 24 * 3600 * 1000, tr)),
    };
    rep.run_part(&one, Duration::from_secs(if thorough { 3000 } else { 120 }));
    rep.require("one-type-browsed-again-and-again", "queries_of_a_search_whose_listener_a_cache_only_browse_took_over");
    // searches of different kinds started and stopped next to each other
    const MOPS: [Op; 10] = [Op::BrowseT1, Op::StopT1, Op::ResolveH1, Op::StopH1, Op::BrowseT2, Op::BrowseCacheT1, Op::ResolveH1Timeout5s, Op::DeliverH1Addr, Op::DisableAll, Op::EnableAll];
    const MOFFS: [u64; 2] = [300, 1500];
    let mdepth = if thorough { 5 } else { 3 };
    let mm = (MOPS.len() * MOFFS.len()) as u64;
    let mn = mm.pow(mdepth);
    let mseq = move |mut idx: u64| -> Vec<(Op, u64)> {
        (0..mdepth)
            .map(|_| {
                let x = idx % mm;
                idx /= mm;
                (MOPS[(x / MOFFS.len() as u64) as usize], MOFFS[(x % MOFFS.len() as u64) as usize])
            })
            .collect()
    };
    let mixed = FnPart {
        name: "searches-of-different-kinds-side-by-side".into(),
        rule: format!("every sequence of exactly {mdepth} (operation, offset) pairs over browse T1 / stop T1 / resolve H1 / stop H1 / browse T2 / cache-only browse T1 / resolve H1 with a 5 s timeout / an address answer / all interfaces disabled / all enabled again x offsets {{0.3, 1.5 s}}, then 1 virtual day; same oracle (stopping one search must leave the schedules of the others alone)"),
        n: mn,
        describe: Box::new(move |i| format!("{:?}", mseq(i))),
        run: Box::new(move |i, tr| run_case(&mseq(i), 24 * 3600 * 1000, tr)),
    };
    rep.run_part(&mixed, Duration::from_secs(if thorough { 3000 } else { 60 }));
    let fdims = [3u64, 2, 2];
    let fu = FnPart {
        name: "follow-ups-for-an-unresolved-instance".into(),
        rule: "a browse finds an instance by its PTR alone (0.1 / 0.6 / 1.4 s after the browse) x (nothing else ever arrives | SRV and TXT arrive with the first follow-up, the address never) x (PTR once | again 300 ms later); over 60 s at most three queries about the instance, and about its host, at least half a second apart".into(),
        n: product(&fdims),
        describe: Box::new(move |i| format!("{:?}", unrank(i, &fdims))),
        run: Box::new(move |i, tr| run_followups(&unrank(i, &fdims), tr)),
    };
    rep.run_part(&fu, Duration::from_secs(60));
    rep.require("follow-ups-for-an-unresolved-instance", "follow_up_chains_checked");
    rep.finish()
}
