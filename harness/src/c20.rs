//! C20 — state stays bounded: expired data is forgotten, unrequested data not kept (Engine S).
use crate::fw::*;
use crate::indep::*;
use crate::scn::*;
use crate::sim::*;
use std::collections::HashMap;
use std::time::Duration;

#[derive(Clone, Copy, Debug, PartialEq)]
enum Op {
    UnbrowsedTypeStream,
    OrphanStream,
    BrowsedStream,
    BrowsedStreamLong,
    AnnounceGoodbyeRepeat,
    AnnounceRepeat,
    AnnounceRepeatLong,
    UpdateStream,
    UpdateStreamLong,
    PtrTxtOnlyStream,
    HostileCorpus,
    Browse,
    BrowseCache,
    StopBrowse,
    Resolve,
    ResolveCapsTimeout,
    StopResolve,
    Register,
    Unregister,
    UnsolicitedOn,
    UnsolicitedOff,
    Idle10s,
}
const OPS: [Op; 22] = [
    Op::UnbrowsedTypeStream,
    Op::OrphanStream,
    Op::BrowsedStream,
    Op::BrowsedStreamLong,
    Op::AnnounceGoodbyeRepeat,
    Op::AnnounceRepeat,
    Op::AnnounceRepeatLong,
    Op::UpdateStream,
    Op::UpdateStreamLong,
    Op::PtrTxtOnlyStream,
    Op::HostileCorpus,
    Op::Browse,
    Op::BrowseCache,
    Op::StopBrowse,
    Op::Resolve,
    Op::ResolveCapsTimeout,
    Op::StopResolve,
    Op::Register,
    Op::Unregister,
    Op::UnsolicitedOn,
    Op::UnsolicitedOff,
    Op::Idle10s,
];

const CACHED: [&str; 6] = ["cached-ptr", "cached-srv", "cached-txt", "cached-addr", "cached-nsec", "cached-subtype"];

fn nsec(owner: &Name) -> Record {
    Record { name: owner.clone(), rtype: T_NSEC, class: C_IN, flush: true, ttl: 120, rd: RD::Nsec { next: owner.clone(), rest: vec![0, 1, 0x40] } }
}

fn run_case(seq: &[Op], trace: bool) -> CaseResult {
    run_case_lb(seq, false, trace)
}

fn run_case_lb(seq: &[Op], loopback: bool, trace: bool) -> CaseResult {
    let mut res = CaseResult::default();
    let mut w = World::one(lay_v4());
    w.trace = trace;
    w.loopback = w.loopback || loopback;
    w.poke(0);
    let mut browsing = false;
    let mut resolving = false;
    let mut unsolicited = false;
    let mut ever_unsolicited = false;
    // what the open searches could need: instances of the browsed type delivered while browsing
    let mut needed_instances: u64 = 0;
    let mut needed_while_resolving: u64 = 0;
    let mut stream_sizes: Vec<(Op, i64)> = vec![];
    let mut browse_baseline: Option<HashMap<String, i64>> = None;
    let mut orphan_growth: HashMap<String, i64> = HashMap::new();
    let mut ptrs_at_browse_start: i64 = 0;
    let mut trail = String::new();
    let metrics = |w: &mut World| -> HashMap<String, i64> { w.metrics(0).unwrap_or_default() };
    let g = |m: &HashMap<String, i64>, k: &str| m.get(k).copied().unwrap_or(0);
    let mut caps_until = 0u64;
    for (k, op) in seq.iter().enumerate() {
        let before = metrics(&mut w);
        match op {
            Op::UnbrowsedTypeStream => {
                for j in 0..50 {
                    let mut i = Inst::simple(&format!("u{j}"), &format!("uh{j}"), [10, 0, 0, 50]);
                    i.ty = n("_z._udp.local");
                    i.inst = n(&format!("u{j}._z._udp.local"));
                    // the PTR at every position of the answer section in turn
                    let mut recs = i.all(120);
                    let len = recs.len();
                    recs.rotate_right(j % len);
                    w.deliver(0, IF0, PEER0, build(&response(recs)));
                }
            }
            Op::OrphanStream => {
                for j in 0..50 {
                    let i = Inst::simple(&format!("o{k}x{j}"), &format!("oh{k}x{j}"), [10, 0, 0, 51]);
                    let mut recs = vec![i.srv(120), i.txt(120)];
                    recs.extend(i.addrs(120));
                    recs.push(nsec(&i.inst));
                    w.deliver(0, IF0, PEER0, build(&response(recs)));
                }
            }
            Op::BrowsedStream | Op::BrowsedStreamLong => {
                let cnt = if *op == Op::BrowsedStream { 50 } else { 100 };
                for j in 0..cnt {
                    let i = Inst::simple(&format!("b{k}x{j}"), &format!("bh{k}x{j}"), [10, 0, 0, 52]);
                    let mut recs = i.all(120);
                    recs.insert(1, ptr(&n("_s._sub._t._tcp.local"), &i.inst, 120));
                    w.deliver(0, IF0, PEER0, build(&response(recs)));
                }
                if browsing {
                    needed_instances += cnt;
                }
            }
            Op::AnnounceGoodbyeRepeat => {
                let i = Inst::simple("flap", "flaphost", [10, 0, 0, 53]);
                for _ in 0..100 {
                    w.deliver(0, IF0, PEER0, build(&response(i.all(120))));
                    w.advance(10);
                    w.deliver(0, IF0, PEER0, build(&response(i.all(0))));
                    w.advance(10);
                }
                if browsing {
                    needed_instances += 1;
                }
            }
            Op::AnnounceRepeat | Op::AnnounceRepeatLong => {
                let i = Inst::simple("chatty", "chattyhost", [10, 0, 0, 54]);
                let cnt = if *op == Op::AnnounceRepeat { 100 } else { 200 };
                for _ in 0..cnt {
                    w.deliver(0, IF0, PEER0, build(&response(i.all(120))));
                    w.advance(10);
                }
                if browsing {
                    needed_instances += 1;
                }
            }
            Op::UpdateStream | Op::UpdateStreamLong => {
                // one instance whose TXT data changes with every announcement (cache-flush bit set),
                // 150 ms apart: each version displaces the earlier ones one second later
                let mut i = Inst::simple("upd", "updhost", [10, 0, 0, 55]);
                let cnt = if *op == Op::UpdateStream { 20 } else { 40 };
                for j in 0..cnt {
                    i.txt = txt_rdata(&[(b"rev", Some(format!("{k}-{j}").as_bytes()))]);
                    w.deliver(0, IF0, PEER0, build(&response(i.all(120))));
                    w.advance(150);
                }
                if browsing {
                    needed_instances += 1;
                }
            }
            Op::PtrTxtOnlyStream => {
                // instances of the browsed type whose SRV never arrives
                for j in 0..20 {
                    let i = Inst::simple(&format!("half{j}"), &format!("halfhost{j}"), [10, 0, 0, 56]);
                    w.deliver(0, IF0, PEER0, build(&response(vec![i.ptr(120), i.txt(120)])));
                }
                if browsing {
                    needed_instances += 20;
                }
            }
            Op::HostileCorpus => {
                for (j, p) in crate::c01::corpus().into_iter().enumerate() {
                    w.deliver(0, IF0, PEER0, p.clone());
                    // and a few mutations of each
                    for cut in [p.len() / 2, p.len().saturating_sub(1)] {
                        w.deliver(0, IF0, PEER0, p[..cut].to_vec());
                    }
                    let mut m = p.clone();
                    if m.len() > 13 {
                        m[12] = 0xC0;
                        m[13] = (j as u8) % 12;
                    }
                    w.deliver(0, IF0, PEER0, m);
                }
            }
            Op::Browse => {
                if !browsing {
                    browse_baseline = Some(before.clone());
                    orphan_growth.clear();
                    ptrs_at_browse_start = g(&before, "cached-ptr");
                }
                let rx = w.ds[0].h.browse("_t._tcp.local.").unwrap();
                w.add_browse(0, rx);
                w.poke(0);
                browsing = true;
            }
            Op::BrowseCache => {
                // a cache-only browse of the same type (replaces a running browse's listener); the
                // type counts as searched: its records are cached and reported
                if !browsing {
                    browse_baseline = Some(before.clone());
                    orphan_growth.clear();
                    ptrs_at_browse_start = g(&before, "cached-ptr");
                }
                let rx = w.ds[0].h.browse_cache("_t._tcp.local.").unwrap();
                w.add_browse(0, rx);
                w.poke(0);
                browsing = true;
            }
            Op::StopBrowse => {
                w.ds[0].h.stop_browse("_t._tcp.local.").unwrap();
                w.poke(0);
                // (4) what was cached for the stopped browse is forgotten at once: nothing beyond what
                // was there before the browse and the records without PTR that arrived meanwhile
                // (those are the known findings above, judged there)
                if browsing && !resolving && !ever_unsolicited {
                    if let Some(base) = &browse_baseline {
                        let now_m = metrics(&mut w);
                        res.count("stops_checked", 1);
                        // context: the PTR records left are exactly the subtype PTRs of the instances
                        let ex = |c: &str| g(&now_m, c) - g(base, c) - orphan_growth.get(c).copied().unwrap_or(0);
                        let subtype_ptrs = ex("cached-ptr") > 0 && ex("cached-ptr") == ex("cached-subtype");
                        for c in ["cached-ptr", "cached-srv", "cached-txt", "cached-subtype"] {
                            let allowed = g(base, c) + orphan_growth.get(c).copied().unwrap_or(0);
                            if g(&now_m, c) > allowed {
                                let tag = if subtype_ptrs && (c == "cached-ptr" || c == "cached-subtype") { "|subtype-ptr-records" } else { "" };
                                res.viols.push(viol(format!("C20|records-of-the-stopped-browse-kept|{c}{tag}"), format!("right after stop_browse (step {k}): {c} = {}, before the browse {} (+{} without PTR meanwhile)", g(&now_m, c), g(base, c), orphan_growth.get(c).copied().unwrap_or(0))));
                            }
                        }
                    }
                }
                browsing = false;
            }
            Op::ResolveCapsTimeout => {
                // a search that ends by itself after 3 s, for a name given with capital letters
                let rx = w.ds[0].h.resolve_hostname("Other-Host.local.", Some(3000)).unwrap();
                w.add_host(0, rx);
                w.poke(0);
                caps_until = w.now + 3000;
            }
            Op::Resolve => {
                let rx = w.ds[0].h.resolve_hostname("host.local.", None).unwrap();
                w.add_host(0, rx);
                w.poke(0);
                resolving = true;
            }
            Op::StopResolve => {
                w.ds[0].h.stop_resolve_hostname("host.local.").unwrap();
                w.poke(0);
                resolving = false;
            }
            Op::Register => {
                w.ds[0].h.register(svc("_t._tcp.local.", "mine", "myhost.local.", "10.0.0.5", 80, &[])).unwrap();
                w.poke(0);
            }
            Op::Unregister => {
                let _ = w.ds[0].h.unregister("mine._t._tcp.local.").unwrap();
                w.poke(0);
            }
            Op::UnsolicitedOn => {
                w.ds[0].h.accept_unsolicited(true).unwrap();
                w.poke(0);
                unsolicited = true;
                ever_unsolicited = true;
            }
            Op::UnsolicitedOff => {
                w.ds[0].h.accept_unsolicited(false).unwrap();
                w.poke(0);
                unsolicited = false;
            }
            Op::Idle10s => w.advance(10_000),
        }
        let after = metrics(&mut w);
        // (while the self-ending search is open it counts as a resolver being open)
        let resolving = resolving || w.now <= caps_until;
        res.transitions += 1;
        trail.push_str(&format!("{op:?}:{:?};", CACHED.iter().map(|c| g(&after, c)).chain([g(&after, "timer")]).collect::<Vec<_>>()));
        let traffic = matches!(op, Op::UnbrowsedTypeStream | Op::OrphanStream | Op::BrowsedStream | Op::BrowsedStreamLong | Op::AnnounceGoodbyeRepeat | Op::AnnounceRepeat | Op::AnnounceRepeatLong | Op::UpdateStream | Op::UpdateStreamLong | Op::PtrTxtOnlyStream | Op::HostileCorpus);
        if traffic {
            res.count("traffic_events_checked", 1);
            let grew: Vec<(String, i64)> = CACHED.iter().map(|c| (c.to_string(), g(&after, c) - g(&before, c))).filter(|x| x.1 > 0).collect();
            if browsing && matches!(op, Op::OrphanStream | Op::HostileCorpus) {
                for (c, d) in &grew {
                    // (PTR records of the corpus belong to the browsed type: stop_browse removes them)
                    if c != "cached-ptr" && c != "cached-subtype" {
                        *orphan_growth.entry(c.clone()).or_insert(0) += d;
                    }
                }
            }
            // (1) nothing is kept when nothing asked for it
            if !browsing && !resolving && !unsolicited && !grew.is_empty() {
                // the corpus packets without a PTR are the same situation as the orphan stream
                // context: only PTR records grew, after a stop_browse that left subtype PTR entries
                // behind (the known finding below): records are admitted whenever their name already
                // has an entry, so the subtype PTRs of further instances slip in through those
                let only_ptr = grew.iter().all(|(c, _)| c == "cached-ptr");
                let what = match op {
                    Op::OrphanStream | Op::HostileCorpus => "srv-txt-addr-nsec-without-ptr",
                    // call site: DnsCache::add_or_update admits a record that is 'not for us' whenever
                    // its name already has an entry (left by stop_browse's subtype PTRs, created while a
                    // resolver or accept_unsolicited was on, ...)
                    _ if only_ptr && g(&before, "cached-ptr") > 0 => "ptr-admitted-because-its-name-already-has-an-entry",
                    _ => "other",
                };
                res.viols.push(viol(
                    format!("C20|records-cached-although-no-search-is-open|{what}"),
                    format!("after {op:?} (step {k}) with no search open and accept_unsolicited off: {grew:?}"),
                ));
            }
            // (2) bounded by need while searching (unsolicited mode accepts everything by design)
            if (browsing || resolving) && !unsolicited {
                // (the corpus is about the browsed type and host names in use: not judged here)
                // with only a resolver open, the records of instances of any type are unneeded too
                let type_nobody_browses = !browsing && matches!(op, Op::BrowsedStream | Op::BrowsedStreamLong | Op::PtrTxtOnlyStream);
                let unneeded = matches!(op, Op::UnbrowsedTypeStream | Op::OrphanStream) || type_nobody_browses;
                if unneeded && !grew.is_empty() {
                    let what = if *op == Op::OrphanStream { "srv-txt-addr-nsec-without-ptr" } else if type_nobody_browses { "instances-of-a-type-nobody-browses-while-only-a-resolver-is-open" } else { "unbrowsed-type" };
                    res.viols.push(viol(
                        format!("C20|unneeded-records-cached-while-searching|{what}"),
                        format!("after {op:?} (step {k}), searches: browse={browsing} resolve={resolving}: {grew:?}"),
                    ));
                }
            }
            // (3) superseded versions of a record go away one second after they were displaced
            if matches!(op, Op::UpdateStream | Op::UpdateStreamLong) && browsing {
                res.count("update_streams_checked", 1);
                let d = g(&after, "cached-txt") - g(&before, "cached-txt");
                // a version is displaced by the first one arriving more than 1 s after it (the 8th
                // next at 150 ms spacing) and leaves 1 s later (7 more): at most 15 alive, plus slack
                if d > 16 {
                    res.viols.push(viol("C20|superseded-record-versions-pile-up", format!("after {op:?} (step {k}): cached-txt grew by {d} for one instance")));
                }
            }
            stream_sizes.push((*op, g(&after, "timer") - g(&before, "timer")));
        }
        let _ = needed_while_resolving;
    }
    // growth test: the same kind of traffic for twice as long must not leave twice the timers
    let t1 = stream_sizes.iter().find(|x| x.0 == Op::AnnounceRepeat).map(|x| x.1);
    let t2 = stream_sizes.iter().find(|x| x.0 == Op::AnnounceRepeatLong).map(|x| x.1);
    if let (Some(a), Some(b)) = (t1, t2) {
        res.count("growth_pairs_checked", 1);
        if a > 20 && b > a + a / 2 {
            res.viols.push(viol("C20|timers-grow-with-repeated-announcements-of-the-same-records", format!("100 repeats left {a} more timers, 200 repeats {b}")));
        }
    }
    // bounded by need at the end of the active phase
    let m = metrics(&mut w);
    if browsing && !ever_unsolicited {
        let ptrs = g(&m, "cached-ptr");
        // every browsed instance may hold 2 PTR (type + subtype), 1 SRV, 1 TXT, 1 address
        // (PTRs admitted before the browse started are judged by clause (2) where they arrive)
        if ptrs > 2 * needed_instances as i64 + 2 + ptrs_at_browse_start {
            res.viols.push(viol("C20|more-ptr-records-than-browsed-instances", format!("{ptrs} cached PTR for {needed_instances} browsed instances")));
        }
    }
    // end state: stop everything, let every TTL pass, then one more hour
    w.ds[0].h.stop_browse("_t._tcp.local.").unwrap();
    w.poke(0);
    w.ds[0].h.stop_resolve_hostname("host.local.").unwrap();
    w.poke(0);
    w.ds[0].h.accept_unsolicited(false).unwrap();
    w.poke(0);
    let _ = w.ds[0].h.unregister("mine._t._tcp.local.").unwrap();
    w.poke(0);
    // the longest TTL any generator uses is 4500 s (corpus), everything else 120 s
    // (with the multicast loop the daemon's own PTR/TXT records, TTL 4500 s, may have been cached)
    w.advance(if seq.contains(&Op::HostileCorpus) || (w.loopback && seq.contains(&Op::Register)) { 4_502_000 } else { 122_000 });
    let mid = metrics(&mut w);
    w.advance(3_600_000);
    let end = metrics(&mut w);
    res.count("end_states_checked", 1);
    for c in CACHED {
        if g(&end, c) != 0 {
            res.viols.push(viol(
                format!("C20|cache-not-empty-after-all-ttls-passed|{c}"),
                format!("{c} = {} (right after the longest TTL: {}) after {:?}", g(&end, c), g(&mid, c), seq),
            ));
        }
    }
    if g(&end, "timer") > 1 {
        res.viols.push(viol("C20|timers-left-after-everything-expired", format!("timer = {} after {:?}", g(&end, "timer"), seq)));
    }
    if let Some(f) = daemon_fault(&w, 0) {
        res.viols.push(viol(format!("C20|daemon-fault|{}", panic_sig(&f)), f));
    }
    res.nontrivial = seq.iter().any(|o| !matches!(o, Op::Idle10s));
    res.outcome = fnv128(format!("{trail}{:?}", end.get("timer")).as_bytes());
    res.states = final_states(&w);
    res
}

pub fn check(tier: &str) -> i32 {
    let mut rep = Report::new("C20", tier, "model_checking");
    let thorough = rep.thorough();
    rep.assume("observed only through the public get_metrics; accept_unsolicited(true) legitimately keeps everything it hears until the TTL passes");
    let depth = if thorough { 4 } else { 3 };
    let m = OPS.len() as u64;
    let mut nseq = 0u64;
    let mut b = 1u64;
    for _ in 0..=depth {
        nseq += b;
        b *= m;
    }
    let seq_of = move |mut idx: u64| -> Vec<Op> {
        let mut len = 0;
        let mut block = 1u64;
        while idx >= block {
            idx -= block;
            block *= m;
            len += 1;
        }
        (0..len).map(|_| { let o = OPS[(idx % m) as usize]; idx /= m; o }).collect()
    };
    // quick tier: sequences of full depth only if they begin by opening something (a browse, a
    // resolver, a registration, accept_unsolicited); shorter ones all.  Thorough: everything.
    let starters = [Op::Browse, Op::BrowseCache, Op::Resolve, Op::Register, Op::UnsolicitedOn];
    let full_len = depth;
    let keep = move |sq: &[Op]| -> bool { thorough || sq.len() < full_len || starters.contains(&sq[0]) };
    let part = FnPart {
        name: "traffic-and-search-sequences".into(),
        rule: format!("every sequence of <= {depth} events (quick tier: those of full length only when they begin with browse / resolve_hostname / register / accept_unsolicited; the others are skipped and count as trivial) over 11 traffic generators (streams of 50-100 distinct names for an unbrowsed type / without PTR / for the browsed type with subtypes, 100x announce+goodbye, 100x and 200x re-announcement, 20 and 40 updates of one TXT record 150 ms apart, 20 instances with PTR and TXT but no SRV, hostile corpus) and 10 API calls; metrics compared before/after each traffic event, after all TTLs, and one hour later"),
        n: nseq,
        describe: Box::new(move |i| format!("{:?}", seq_of(i))),
        run: Box::new(move |i, tr| { let sq = seq_of(i); if keep(&sq) { run_case(&sq, tr) } else { CaseResult::default() } }),
    };
    rep.run_part(&part, Duration::from_secs(if thorough { 3000 } else { 50 }));
    // the same with the daemon hearing its own multicasts, one level less deep
    let ldepth = depth - 1;
    let mut nl = 0u64;
    let mut b = 1u64;
    for _ in 0..=ldepth {
        nl += b;
        b *= m;
    }
    let lpart = FnPart {
        name: "sequences-with-multicast-loop".into(),
        rule: format!("every sequence of <= {ldepth} of the same events with the daemon hearing its own multicasts (IP_MULTICAST_LOOP, the crate's default), same comparisons"),
        n: nl,
        describe: Box::new(move |i| format!("{:?} multicast-loop", seq_of(i))),
        run: Box::new(move |i, tr| run_case_lb(&seq_of(i), true, tr)),
    };
    rep.run_part(&lpart, Duration::from_secs(if thorough { 3000 } else { 50 }));
    // the growth pair needs both lengths in one history
    let pair = FnPart {
        name: "growth-pairs".into(),
        rule: "browse, then 100x and 200x re-announcement of the same record set in one history (both orders): the timer count must not grow with the amount of identical traffic".into(),
        n: 2,
        describe: Box::new(|i| format!("order {i}")),
        run: Box::new(|i, tr| if i == 0 { run_case(&[Op::Browse, Op::AnnounceRepeat, Op::Idle10s, Op::AnnounceRepeatLong], tr) } else { run_case(&[Op::Browse, Op::AnnounceRepeatLong, Op::Idle10s, Op::AnnounceRepeat], tr) }),
    };
    rep.run_part(&pair, Duration::from_secs(120));
    rep.require("traffic-and-search-sequences", "traffic_events_checked");
    rep.require("traffic-and-search-sequences", "end_states_checked");
    rep.require("growth-pairs", "growth_pairs_checked");
    rep.finish()
}
