//! C07 — a name is probed three times before it is announced, then announced twice (Engine S).
use crate::fw::*;
use crate::indep::*;
use crate::scn::*;
use crate::sim::*;
use std::collections::BTreeSet;
use std::time::Duration;

#[derive(Clone, Debug)]
struct Cfg {
    subtype: bool,
    family: u64, // 0 v4, 1 v6, 2 both
    two_intf: bool,
    second: u64, // 0 none, else offset index
    j1: u64,
    later: u64,
    probe: bool,
}

const OFFSETS: [u64; 5] = [0, 0, 100, 300, 800];

struct SvcSpec {
    ty: Name,
    sub: Option<Name>,
    inst: Name,
    host: Name,
    port: u16,
    reg_at: u64,
}

fn run_case(c: &Cfg, trace: bool) -> CaseResult {
    let mut res = CaseResult::default();
    let mut intfs = vec![];
    let mut ips: Vec<String> = vec![];
    if c.family != 1 {
        intfs.push(v4("sim0", IF0, "10.0.0.1", 24));
        ips.push("10.0.0.5".into());
    }
    if c.family != 0 {
        intfs.push(v6("sim0", IF0, "fd00::1", 64));
        ips.push("fd00::5".into());
    }
    if c.two_intf {
        if c.family != 1 {
            intfs.push(v4("sim1", IF1, "10.0.1.1", 24));
            ips.push("10.0.1.5".into());
        }
        if c.family != 0 {
            intfs.push(v6("sim1", IF1, "fd00:1::1", 64));
            ips.push("fd00:1::5".into());
        }
    }
    let if_list: Vec<u32> = if c.two_intf { vec![IF0, IF1] } else { vec![IF0] };
    let mut w = World::one(intfs);
    w.trace = trace;
    w.ds[0].ctl.push_rng(c.j1);
    let later = match c.later {
        0 => 0,
        1 => c.j1,
        _ => 249,
    };
    w.ds[0].ctl.set_rng_default(later);
    let mon = w.ds[0].h.monitor().unwrap();
    w.add_mon(0, mon);
    w.poke(0);

    let ty1 = if c.subtype {
        "_s._sub._t._tcp.local."
    } else {
        "_t._tcp.local."
    };
    let ipstr = ips.join(",");
    let mut specs = vec![SvcSpec {
        ty: n("_t._tcp.local"),
        sub: if c.subtype {
            Some(n("_s._sub._t._tcp.local"))
        } else {
            None
        },
        inst: n("one._t._tcp.local"),
        host: n("host.local"),
        port: 80,
        reg_at: w.now,
    }];
    let mut s1 = svc(ty1, "one", "host.local.", &ipstr, 80, &[("k", "v")]);
    s1.set_requires_probe(c.probe);
    w.ds[0].h.register(s1).unwrap();
    w.poke(0);
    if c.second > 0 {
        w.advance(OFFSETS[c.second as usize]);
        let mut s2 = svc("_u._udp.local.", "two", "host.local.", &ipstr, 81, &[]);
        s2.set_requires_probe(c.probe);
        specs.push(SvcSpec {
            ty: n("_u._udp.local"),
            sub: None,
            inst: n("two._u._udp.local"),
            host: n("host.local"),
            port: 81,
            reg_at: w.now,
        });
        w.ds[0].h.register(s2).unwrap();
        w.poke(0);
    }
    // Queries on a 125 ms grid while the services come up: nothing may be answered for a
    // service on an interface before its first announcement there.
    let end = T0 + 4200;
    let mut solicited: Vec<(usize, usize)> = vec![];
    let mut next_q = T0 + 60;
    while w.now < end {
        let target = next_q.min(end);
        w.run_until(target);
        while next_q < w.now {
            next_q += 125;
        }
        if next_q >= T0 + 2400 {
            next_q = u64::MAX;
        }
        if w.now == next_q {
            for &i in &if_list {
                let src = if c.family == 1 {
                    if i == IF0 { PEER0_V6 } else { "[fd00:1::9]:5353" }
                } else if i == IF0 {
                    PEER0
                } else {
                    PEER1
                };
                let q = query(vec![
                    (n("_t._tcp.local"), T_PTR),
                    (n("_u._udp.local"), T_PTR),
                    (n("one._t._tcp.local"), T_SRV),
                    (n("two._u._udp.local"), T_TXT),
                    (n("host.local"), T_A),
                    (n("host.local"), T_AAAA),
                ]);
                let from = w.log.len();
                w.deliver(0, i, src, build(&q));
                solicited.push((from, w.log.len()));
            }
            next_q += 125;
        }
    }
    if let Some(f) = daemon_fault(&w, 0) {
        res.viols.push(viol("C07|daemon-fault", f));
        return res;
    }
    // (time, packet, solicited?) for every packet sent
    let all: Vec<(u64, Out, bool)> = w
        .log
        .iter()
        .enumerate()
        .filter_map(|(ix, e)| match &e.kind {
            Kind::Out(o) => Some((
                e.t,
                o.clone(),
                solicited.iter().any(|(a, b)| ix >= *a && ix < *b),
            )),
            _ => None,
        })
        .collect();
    let mons = mevs(&w, 0, 0);
    for (k, s) in specs.iter().enumerate() {
        for &i in &if_list {
            let on_if: Vec<&(u64, Out, bool)> =
                all.iter().filter(|(_, o, _)| o.if_index == Some(i)).collect();
            // announcements: multicast responses whose answers hold PTR ty -> inst
            let is_ann = |o: &Out| -> bool {
                o.is_multicast()
                    && o.msg.as_ref().is_ok_and(|m| {
                        m.is_response()
                            && m.answers.iter().any(|r| {
                                r.rtype == T_PTR
                                    && name_eq_ci(&r.name, &s.ty)
                                    && matches!(&r.rd, RD::Ptr(t) if name_eq_ci(t, &s.inst))
                                    && r.ttl > 0
                            })
                            && m.answers.iter().any(|r| r.rtype == T_SRV)
                    })
            };
            let names_service = |m: &Msg| -> bool {
                m.all_records().any(|r| {
                    name_eq_ci(&r.name, &s.inst)
                        || matches!(&r.rd, RD::Ptr(t) if name_eq_ci(t, &s.inst))
                })
            };
            // announcement = unsolicited: not sent in an iteration that was handed a query
            let ann_times: BTreeSet<u64> = on_if
                .iter()
                .filter(|(_, o, sol)| !*sol && is_ann(o))
                .map(|(t, _, _)| *t)
                .collect();
            let tag = format!("svc{k}");
            let Some(&a1) = ann_times.iter().next() else {
                res.viols.push(viol(
                    format!("C07|never-announced|{}", if c.probe { "probing" } else { "no-probe" }),
                    format!("{tag} on if {i}: no announcement within 4.2 s of registration"),
                ));
                continue;
            };
            res.count("announced_service_interfaces", 1);
            // (d) bounded time
            let bound = s.reg_at + if c.probe { 1000 } else { 0 };
            if a1 > bound {
                res.viols.push(viol(
                    "C07|announced-late",
                    format!("{tag} if {i}: first announcement at +{} > registration +{} + bound", a1 - T0, s.reg_at - T0),
                ));
            }
            // (b) nothing naming the service in a response before a1
            for (t, o, _) in on_if.iter().chain(all.iter().filter(|(_, o, _)| o.if_index.is_none()).collect::<Vec<_>>().iter()) {
                if *t < a1 {
                    if let Ok(m) = &o.msg {
                        if m.is_response() && names_service(m) {
                            res.viols.push(viol(
                                "C07|answered-or-announced-before-probing-finished",
                                format!("{tag} if {i}: at +{} before first announcement +{}: {}", t - T0, a1 - T0, m.summary()),
                            ));
                        }
                    }
                }
            }
            if c.probe {
                // (a) three probes 250 ms apart, then 250 ms quiet
                let probe_times = |name: &Name, need: &dyn Fn(&Msg) -> bool| -> BTreeSet<u64> {
                    on_if
                        .iter()
                        .filter(|(_, o, _)| {
                            o.msg.as_ref().is_ok_and(|m| {
                                !m.is_response() && asks(m, name, T_ANY) && need(m)
                            })
                        })
                        .map(|(t, _, _)| *t)
                        .collect()
                };
                let inst_ok = |m: &Msg| {
                    m.authorities.iter().any(|r| {
                        r.rtype == T_SRV
                            && name_eq_ci(&r.name, &s.inst)
                            && matches!(&r.rd, RD::Srv { port, target, .. } if *port == s.port && name_eq_ci(target, &s.host))
                    }) && m
                        .authorities
                        .iter()
                        .any(|r| r.rtype == T_TXT && name_eq_ci(&r.name, &s.inst))
                };
                let host_ok = |m: &Msg| {
                    m.authorities.iter().any(|r| {
                        (r.rtype == T_A || r.rtype == T_AAAA) && name_eq_ci(&r.name, &s.host)
                    })
                };
                let three = |p: &BTreeSet<u64>| -> bool {
                    p.iter()
                        .any(|&t| p.contains(&(t + 250)) && p.contains(&(t + 500)) && t + 750 <= a1)
                };
                let pi = probe_times(&s.inst, &inst_ok);
                if !three(&pi) {
                    res.viols.push(viol(
                        "C07|instance-name-not-probed-3x250ms-before-announcement",
                        format!("{tag} if {i}: instance probes (with SRV+TXT authority) at {:?}, first announcement +{}", pi.iter().map(|t| t - T0).collect::<Vec<_>>(), a1 - T0),
                    ));
                } else {
                    res.count("instance_probe_triples", 1);
                }
                // host: held if an earlier service announced an address record for it on i
                let held = on_if.iter().any(|(t, o, _)| {
                    *t <= s.reg_at
                        && o.msg.as_ref().is_ok_and(|m| {
                            m.is_response()
                                && m.answers.iter().any(|r| {
                                    (r.rtype == T_A || r.rtype == T_AAAA)
                                        && name_eq_ci(&r.name, &s.host)
                                })
                        })
                });
                if !held {
                    let ph = probe_times(&s.host, &host_ok);
                    if !three(&ph) {
                        res.viols.push(viol(
                            "C07|host-name-not-probed-3x250ms-before-announcement",
                            format!("{tag} if {i}: host probes at {:?}, first announcement +{}", ph.iter().map(|t| t - T0).collect::<Vec<_>>(), a1 - T0),
                        ));
                    } else {
                        res.count("host_probe_triples", 1);
                    }
                } else {
                    res.count("host_already_held", 1);
                }
                // probe start within the jitter window
                if let Some(&p0) = pi.iter().next() {
                    if p0 < s.reg_at || p0 > s.reg_at + 249 {
                        res.viols.push(viol(
                            "C07|first-probe-outside-0..250ms-jitter-window",
                            format!("{tag} if {i}: first probe +{} registration +{}", p0 - T0, s.reg_at - T0),
                        ));
                    }
                }
            }
            // (c) two announcements one second apart, with complete content
            let second_ok = ann_times.contains(&(a1 + 1000));
            if !second_ok {
                res.viols.push(viol(
                    "C07|no-second-announcement-after-1s",
                    format!("{tag} if {i}: unsolicited announcements at {:?}", ann_times.iter().map(|t| t - T0).collect::<Vec<_>>()),
                ));
            }
            for at in [a1, a1 + 1000] {
                let pk: Vec<&Out> = on_if
                    .iter()
                    .filter(|(t, o, sol)| *t == at && !*sol && is_ann(o))
                    .map(|(_, o, _)| o)
                    .collect();
                let mut addr_union: BTreeSet<Vec<u8>> = BTreeSet::new();
                for o in &pk {
                    let m = o.msg.as_ref().unwrap();
                    let has = |f: &dyn Fn(&Record) -> bool| m.answers.iter().any(f);
                    let mut missing = vec![];
                    if let Some(sub) = &s.sub {
                        if !has(&|r| r.rtype == T_PTR && name_eq_ci(&r.name, sub) && matches!(&r.rd, RD::Ptr(t) if name_eq_ci(t, &s.inst))) {
                            missing.push("subtype PTR");
                        }
                    }
                    if !has(&|r| r.rtype == T_SRV && name_eq_ci(&r.name, &s.inst) && matches!(&r.rd, RD::Srv{port, target, ..} if *port == s.port && name_eq_ci(target, &s.host))) {
                        missing.push("SRV");
                    }
                    if !has(&|r| r.rtype == T_TXT && name_eq_ci(&r.name, &s.inst)) {
                        missing.push("TXT");
                    }
                    let addrs: Vec<&Record> = m
                        .answers
                        .iter()
                        .filter(|r| (r.rtype == T_A || r.rtype == T_AAAA) && name_eq_ci(&r.name, &s.host))
                        .collect();
                    if addrs.is_empty() {
                        missing.push("address");
                    }
                    for r in addrs {
                        addr_union.insert(rdata_bytes(&r.rd));
                    }
                    if !missing.is_empty() {
                        res.viols.push(viol(
                            format!("C07|announcement-incomplete|{}", missing.join("+")),
                            format!("{tag} if {i} at +{}: {}", at - T0, m.summary()),
                        ));
                    }
                }
                if !pk.is_empty() {
                    res.count("announcements_checked", pk.len() as u64);
                    let want = match c.family {
                        2 => 2,
                        _ => 1,
                    };
                    if addr_union.len() != want {
                        res.viols.push(viol(
                            "C07|announcement-addresses-not-those-of-the-link",
                            format!("{tag} if {i} at +{}: {} distinct addresses announced, service has {} on this link", at - T0, addr_union.len(), want),
                        ));
                    }
                }
            }
            // (e) Announce event
            let fullname = dotted(&s.inst);
            if !mons
                .iter()
                .any(|(t, e)| *t == a1 && matches!(e, MEv::Announce(nm, _) if nm.eq_ignore_ascii_case(&fullname)))
            {
                res.viols.push(viol(
                    "C07|no-Announce-event-at-first-announcement",
                    format!("{tag} if {i}: monitor events {:?}", mons.iter().filter(|(_, e)| matches!(e, MEv::Announce(..))).collect::<Vec<_>>()),
                ));
            }
        }
    }
    res.nontrivial = true;
    res.transitions = w.steps;
    res.outcome = outcome_hash(&w.log);
    res.states = final_states(&w);
    res
}

pub fn check(tier: &str) -> i32 {
    let mut rep = Report::new("C07", tier, "model_checking");
    let thorough = rep.thorough();
    rep.assume("the daemon is woken exactly at the wake-up time it asked for (lock-step gate); jitter values come from the explorer's script");
    // dims: subtype, family, two_intf, second, j1, later
    let dims: Vec<u64> = if thorough {
        vec![2, 3, 2, 5, 250, 3]
    } else {
        vec![2, 2, 2, 3, 250, 3]
    };
    let cfg_of = |i: u64| -> Cfg {
        let x = unrank(i, &dims);
        if thorough {
            Cfg { subtype: x[0] == 1, family: x[1], two_intf: x[2] == 1, second: x[3], j1: x[4], later: x[5], probe: true }
        } else {
            Cfg { subtype: x[0] == 1, family: [0, 2][x[1] as usize], two_intf: x[2] == 1, second: [0, 1, 3][x[3] as usize], j1: x[4], later: x[5], probe: true }
        }
    };
    let main = FnPart {
        name: "probe-announce-schedule".into(),
        rule: "registration configuration (subtype, IP families, 1-2 interfaces, second service sharing the host at an offset) x every first jitter 0..249 x later draws; each execution registers, is queried on a 125 ms grid, runs 4.2 s; non-trivial = at least one service reached its first announcement".into(),
        n: product(&dims),
        describe: Box::new(|i| format!("{:?}", cfg_of(i))),
        run: Box::new(|i, tr| run_case(&cfg_of(i), tr)),
    };
    rep.run_part(&main, Duration::from_secs(if thorough { 3000 } else { 50 }));
    // control: probing disabled
    let cdims = [2u64, 3, 2, 2];
    let ctl = FnPart {
        name: "no-probe-control".into(),
        rule: "requires_probe(false): announced at once and again after 1 s, no probe queries required".into(),
        n: product(&cdims),
        describe: Box::new(|i| format!("{:?}", unrank(i, &cdims))),
        run: Box::new(|i, tr| {
            let x = unrank(i, &cdims);
            run_case(&Cfg { subtype: x[0] == 1, family: x[1], two_intf: x[2] == 1, second: x[3] * 2, j1: 100, later: 0, probe: false }, tr)
        }),
    };
    rep.run_part(&ctl, Duration::from_secs(60));
    rep.require("probe-announce-schedule", "instance_probe_triples");
    rep.require("probe-announce-schedule", "host_probe_triples");
    rep.require("probe-announce-schedule", "announcements_checked");
    rep.finish()
}
