//! C07 — a name is probed three times before it is announced, then announced twice (Engine S).
use crate::fw::*;
use crate::indep::*;
use crate::scn::*;
use crate::sim::*;
use mdns_sd::IfKind;
use std::collections::BTreeSet;
use std::time::Duration;

#[derive(Clone, Debug)]
struct Cfg {
    subtype: bool,
    family: u64, // 0 v4, 1 v6, 2 both
    two_intf: bool,
    second: u64, // 0 none, else offset index
    j1: u64,
    later: u64,
    probe: bool,
    /// instance label of the first service
    label: &'static str,
    /// a second address of the first family in the first interface's subnet
    extra_addr: bool,
}

const OFFSETS: [u64; 5] = [0, 0, 100, 300, 800];

struct SvcSpec {
    ty: Name,
    sub: Option<Name>,
    inst: Name,
    host: Name,
    port: u16,
    reg_at: u64,
}

fn run_case(c: &Cfg, trace: bool) -> CaseResult {
    let mut res = CaseResult::default();
    let mut intfs = vec![];
    let mut ips: Vec<String> = vec![];
    if c.family != 1 {
        intfs.push(v4("sim0", IF0, "10.0.0.1", 24));
        ips.push("10.0.0.5".into());
    }
    if c.family != 0 {
        intfs.push(v6("sim0", IF0, "fd00::1", 64));
        ips.push("fd00::5".into());
    }
    if c.extra_addr {
        ips.push(if c.family != 1 { "10.0.0.6".into() } else { "fd00::6".into() });
    }
    if c.two_intf {
        if c.family != 1 {
            intfs.push(v4("sim1", IF1, "10.0.1.1", 24));
            ips.push("10.0.1.5".into());
        }
        if c.family != 0 {
            intfs.push(v6("sim1", IF1, "fd00:1::1", 64));
            ips.push("fd00:1::5".into());
        }
    }
    let if_list: Vec<u32> = if c.two_intf { vec![IF0, IF1] } else { vec![IF0] };
    let mut w = World::one(intfs);
    w.trace = trace;
    w.ds[0].ctl.push_rng(c.j1);
    let later = match c.later {
        0 => 0,
        1 => c.j1,
        _ => 249,
    };
    w.ds[0].ctl.set_rng_default(later);
    let mon = w.ds[0].h.monitor().unwrap();
    w.add_mon(0, mon);
    w.poke(0);

    let ty1 = if c.subtype {
        "_s._sub._t._tcp.local."
    } else {
        "_t._tcp.local."
    };
    let ipstr = ips.join(",");
    let mut specs = vec![SvcSpec {
        ty: n("_t._tcp.local"),
        sub: if c.subtype {
            Some(n("_s._sub._t._tcp.local"))
        } else {
            None
        },
        inst: {
            let mut v: Name = vec![c.label.as_bytes().to_vec()];
            v.extend(n("_t._tcp.local"));
            v
        },
        host: n("host.local"),
        port: 80,
        reg_at: w.now,
    }];
    let mut s1 = svc(ty1, c.label, "host.local.", &ipstr, 80, &[("k", "v")]);
    s1.set_requires_probe(c.probe);
    w.ds[0].h.register(s1).unwrap();
    w.poke(0);
    if c.second > 0 {
        w.advance(OFFSETS[c.second as usize]);
        let mut s2 = svc("_u._udp.local.", "two", "host.local.", &ipstr, 81, &[]);
        s2.set_requires_probe(c.probe);
        specs.push(SvcSpec {
            ty: n("_u._udp.local"),
            sub: None,
            inst: n("two._u._udp.local"),
            host: n("host.local"),
            port: 81,
            reg_at: w.now,
        });
        w.ds[0].h.register(s2).unwrap();
        w.poke(0);
    }
    // Queries on a 125 ms grid while the services come up: nothing may be answered for a
    // service on an interface before its first announcement there.
    let end = T0 + 4200;
    let mut solicited: Vec<(usize, usize)> = vec![];
    let mut next_q = T0 + 60;
    while w.now < end {
        let target = next_q.min(end);
        w.run_until(target);
        while next_q < w.now {
            next_q += 125;
        }
        if next_q >= T0 + 2400 {
            next_q = u64::MAX;
        }
        if w.now == next_q {
            for &i in &if_list {
                let src = if c.family == 1 {
                    if i == IF0 { PEER0_V6 } else { "[fd00:1::9]:5353" }
                } else if i == IF0 {
                    PEER0
                } else {
                    PEER1
                };
                let q = query(vec![
                    (n("_t._tcp.local"), T_PTR),
                    (n("_u._udp.local"), T_PTR),
                    (specs[0].inst.clone(), T_SRV),
                    (n("two._u._udp.local"), T_TXT),
                    (n("host.local"), T_A),
                    (n("host.local"), T_AAAA),
                    (n("_services._dns-sd._udp.local"), T_PTR),
                ]);
                let from = w.log.len();
                w.deliver(0, i, src, build(&q));
                solicited.push((from, w.log.len()));
            }
            next_q += 125;
        }
    }
    if let Some(f) = daemon_fault(&w, 0) {
        res.viols.push(viol("C07|daemon-fault", f));
        return res;
    }
    // (time, packet, solicited?) for every packet sent
    let all: Vec<(u64, Out, bool)> = w
        .log
        .iter()
        .enumerate()
        .filter_map(|(ix, e)| match &e.kind {
            Kind::Out(o) => Some((
                e.t,
                o.clone(),
                solicited.iter().any(|(a, b)| ix >= *a && ix < *b),
            )),
            _ => None,
        })
        .collect();
    let mons = mevs(&w, 0, 0);
    for (k, s) in specs.iter().enumerate() {
        for &i in &if_list {
            let on_if: Vec<&(u64, Out, bool)> =
                all.iter().filter(|(_, o, _)| o.if_index == Some(i)).collect();
            // announcements: multicast responses whose answers hold PTR ty -> inst
            let is_ann = |o: &Out| -> bool {
                o.is_multicast()
                    && o.msg.as_ref().is_ok_and(|m| {
                        m.is_response()
                            && m.answers.iter().any(|r| {
                                r.rtype == T_PTR
                                    && name_eq_ci(&r.name, &s.ty)
                                    && matches!(&r.rd, RD::Ptr(t) if name_eq_ci(t, &s.inst))
                                    && r.ttl > 0
                            })
                            && m.answers.iter().any(|r| r.rtype == T_SRV)
                    })
            };
            let names_service = |m: &Msg| -> bool {
                m.all_records().any(|r| {
                    name_eq_ci(&r.name, &s.inst)
                        || matches!(&r.rd, RD::Ptr(t) if name_eq_ci(t, &s.inst))
                        // the service-type enumeration names the type of a service (the two services have different types)
                        || (name_eq_ci(&r.name, &n("_services._dns-sd._udp.local"))
                            && matches!(&r.rd, RD::Ptr(t) if name_eq_ci(t, &s.inst[1..].to_vec())))
                })
            };
            // announcement = unsolicited: not sent in an iteration that was handed a query
            let ann_times: BTreeSet<u64> = on_if
                .iter()
                .filter(|(_, o, sol)| !*sol && is_ann(o))
                .map(|(t, _, _)| *t)
                .collect();
            let tag = format!("svc{k}");
            let Some(&a1) = ann_times.iter().next() else {
                res.viols.push(viol(
                    format!("C07|never-announced|{}", if c.probe { "probing" } else { "no-probe" }),
                    format!("{tag} on if {i}: no announcement within 4.2 s of registration"),
                ));
                continue;
            };
            res.count("announced_service_interfaces", 1);
            // (d) bounded time
            let bound = s.reg_at + if c.probe { 1000 } else { 0 };
            if a1 > bound {
                res.viols.push(viol(
                    "C07|announced-late",
                    format!("{tag} if {i}: first announcement at +{} > registration +{} + bound", a1 - T0, s.reg_at - T0),
                ));
            }
            // (b) nothing naming the service in a response before a1
            for (t, o, _) in on_if.iter().chain(all.iter().filter(|(_, o, _)| o.if_index.is_none()).collect::<Vec<_>>().iter()) {
                if *t < a1 {
                    if let Ok(m) = &o.msg {
                        if m.is_response() && names_service(m) {
                            res.viols.push(viol(
                                "C07|answered-or-announced-before-probing-finished",
                                format!("{tag} if {i}: at +{} before first announcement +{}: {}", t - T0, a1 - T0, m.summary()),
                            ));
                        }
                    }
                }
            }
            if c.probe {
                // (a) three probes 250 ms apart, then 250 ms quiet
                let probe_times = |name: &Name, need: &dyn Fn(&Msg) -> bool| -> BTreeSet<u64> {
                    on_if
                        .iter()
                        .filter(|(_, o, _)| {
                            o.msg.as_ref().is_ok_and(|m| {
                                !m.is_response() && asks(m, name, T_ANY) && need(m)
                            })
                        })
                        .map(|(t, _, _)| *t)
                        .collect()
                };
                let inst_ok = |m: &Msg| {
                    m.authorities.iter().any(|r| {
                        r.rtype == T_SRV
                            && name_eq_ci(&r.name, &s.inst)
                            && matches!(&r.rd, RD::Srv { port, target, .. } if *port == s.port && name_eq_ci(target, &s.host))
                    }) && m
                        .authorities
                        .iter()
                        .any(|r| r.rtype == T_TXT && name_eq_ci(&r.name, &s.inst))
                };
                let host_ok = |m: &Msg| {
                    m.authorities.iter().any(|r| {
                        (r.rtype == T_A || r.rtype == T_AAAA) && name_eq_ci(&r.name, &s.host)
                    })
                };
                let three = |p: &BTreeSet<u64>| -> bool {
                    p.iter()
                        .any(|&t| p.contains(&(t + 250)) && p.contains(&(t + 500)) && t + 750 <= a1)
                };
                let pi = probe_times(&s.inst, &inst_ok);
                if !three(&pi) {
                    res.viols.push(viol(
                        "C07|instance-name-not-probed-3x250ms-before-announcement",
                        format!("{tag} if {i}: instance probes (with SRV+TXT authority) at {:?}, first announcement +{}", pi.iter().map(|t| t - T0).collect::<Vec<_>>(), a1 - T0),
                    ));
                } else {
                    res.count("instance_probe_triples", 1);
                }
                // host: held if an earlier service announced an address record for it on i
                let held = on_if.iter().any(|(t, o, _)| {
                    *t <= s.reg_at
                        && o.msg.as_ref().is_ok_and(|m| {
                            m.is_response()
                                && m.answers.iter().any(|r| {
                                    (r.rtype == T_A || r.rtype == T_AAAA)
                                        && name_eq_ci(&r.name, &s.host)
                                })
                        })
                });
                if !held {
                    // each host-name probe proposes every address the service has on this link
                    let want_addrs = (if c.family == 2 { 2 } else { 1 }) + (c.extra_addr && i == IF0) as usize;
                    for (t, o, _) in on_if.iter() {
                        if let Ok(m) = &o.msg {
                            if !m.is_response() && asks(m, &s.host, T_ANY) && *t < a1 {
                                let got = m.authorities.iter().filter(|r| (r.rtype == T_A || r.rtype == T_AAAA) && name_eq_ci(&r.name, &s.host)).count();
                                if got != want_addrs && k == 0 {
                                    res.viols.push(viol("C07|host-probe-does-not-propose-all-addresses-of-the-link", format!("{tag} if {i} at +{}: {} address records in the authority section, the service has {} on this link: {}", t - T0, got, want_addrs, m.summary())));
                                }
                            }
                        }
                    }
                    let ph = probe_times(&s.host, &host_ok);
                    if !three(&ph) {
                        res.viols.push(viol(
                            "C07|host-name-not-probed-3x250ms-before-announcement",
                            format!("{tag} if {i}: host probes at {:?}, first announcement +{}", ph.iter().map(|t| t - T0).collect::<Vec<_>>(), a1 - T0),
                        ));
                    } else {
                        res.count("host_probe_triples", 1);
                    }
                } else {
                    res.count("host_already_held", 1);
                }
                // probe start within the jitter window
                if let Some(&p0) = pi.iter().next() {
                    if p0 < s.reg_at || p0 > s.reg_at + 249 {
                        res.viols.push(viol(
                            "C07|first-probe-outside-0..250ms-jitter-window",
                            format!("{tag} if {i}: first probe +{} registration +{}", p0 - T0, s.reg_at - T0),
                        ));
                    }
                }
            }
            // (c) two announcements one second apart, with complete content
            let second_ok = ann_times.contains(&(a1 + 1000));
            if !second_ok {
                res.viols.push(viol(
                    "C07|no-second-announcement-after-1s",
                    format!("{tag} if {i}: unsolicited announcements at {:?}", ann_times.iter().map(|t| t - T0).collect::<Vec<_>>()),
                ));
            }
            for at in [a1, a1 + 1000] {
                let pk: Vec<&Out> = on_if
                    .iter()
                    .filter(|(t, o, sol)| *t == at && !*sol && is_ann(o))
                    .map(|(_, o, _)| o)
                    .collect();
                let mut addr_union: BTreeSet<Vec<u8>> = BTreeSet::new();
                for o in &pk {
                    let m = o.msg.as_ref().unwrap();
                    let has = |f: &dyn Fn(&Record) -> bool| m.answers.iter().any(f);
                    let mut missing = vec![];
                    if let Some(sub) = &s.sub {
                        if !has(&|r| r.rtype == T_PTR && name_eq_ci(&r.name, sub) && matches!(&r.rd, RD::Ptr(t) if name_eq_ci(t, &s.inst))) {
                            missing.push("subtype PTR");
                        }
                    }
                    if !has(&|r| r.rtype == T_SRV && name_eq_ci(&r.name, &s.inst) && matches!(&r.rd, RD::Srv{port, target, ..} if *port == s.port && name_eq_ci(target, &s.host))) {
                        missing.push("SRV");
                    }
                    if !has(&|r| r.rtype == T_TXT && name_eq_ci(&r.name, &s.inst)) {
                        missing.push("TXT");
                    }
                    let addrs: Vec<&Record> = m
                        .answers
                        .iter()
                        .filter(|r| (r.rtype == T_A || r.rtype == T_AAAA) && name_eq_ci(&r.name, &s.host))
                        .collect();
                    if addrs.is_empty() {
                        missing.push("address");
                    }
                    for r in addrs {
                        addr_union.insert(rdata_bytes(&r.rd));
                    }
                    if !missing.is_empty() {
                        res.viols.push(viol(
                            format!("C07|announcement-incomplete|{}", missing.join("+")),
                            format!("{tag} if {i} at +{}: {}", at - T0, m.summary()),
                        ));
                    }
                }
                if !pk.is_empty() {
                    res.count("announcements_checked", pk.len() as u64);
                    let want = match c.family {
                        2 => 2,
                        _ => 1,
                    } + (c.extra_addr && i == IF0) as usize;
                    if addr_union.len() != want {
                        res.viols.push(viol(
                            "C07|announcement-addresses-not-those-of-the-link",
                            format!("{tag} if {i} at +{}: {} distinct addresses announced, service has {} on this link", at - T0, addr_union.len(), want),
                        ));
                    }
                }
            }
            // (e) Announce event
            let fullname = dotted(&s.inst);
            if !mons
                .iter()
                // (the event carries the full name as the crate spells it: dots inside the instance label escaped)
                .any(|(t, e)| *t == a1 && matches!(e, MEv::Announce(nm, _) if nm.replace("\\.", ".").eq_ignore_ascii_case(&fullname)))
            {
                res.viols.push(viol(
                    "C07|no-Announce-event-at-first-announcement",
                    format!("{tag} if {i}: monitor events {:?}", mons.iter().filter(|(_, e)| matches!(e, MEv::Announce(..))).collect::<Vec<_>>()),
                ));
            }
        }
    }
    res.nontrivial = true;
    res.transitions = w.steps;
    res.outcome = outcome_hash(&w.log);
    res.states = final_states(&w);
    res
}

// ---------------------------------------------------------------- registration histories

#[derive(Clone, Copy, Debug, PartialEq)]
enum HOp {
    Reg1,
    Reg1NewPort,
    Reg2,
    Unreg1,
    Unreg2,
    Idle300,
    Idle2s,
    IfAppears,
}
const HOPS: [HOp; 8] = [HOp::Reg1, HOp::Reg1NewPort, HOp::Reg2, HOp::Unreg1, HOp::Unreg2, HOp::Idle300, HOp::Idle2s, HOp::IfAppears];

/// Register / re-register / unregister histories over two services sharing a host, with an
/// interface that may appear later.  Per (service, interface, registration): announced within the
/// bound with the values of that registration; if the daemon did not hold the instance name there,
/// nothing naming it is sent in a response before three probes 250 ms apart and 250 ms of quiet;
/// second announcement one second after the first.
fn run_hist(seq: &[HOp], jitter: u64, loopback: bool, trace: bool) -> CaseResult {
    let mut res = CaseResult::default();
    let mut table = vec![v4("sim0", IF0, "10.0.0.1", 24)];
    let mut w = World::one(table.clone());
    w.trace = trace;
    w.loopback = w.loopback || loopback;
    w.ds[0].ctl.set_rng_default(jitter);
    w.ds[0].h.set_ip_check_interval(1).unwrap();
    w.poke(0);
    w.advance(5100); // the first periodic check still follows the default interval
    let base = w.now;
    let ips = "10.0.0.5,10.0.1.5";
    let tys = [n("_t._tcp.local"), n("_u._udp.local")];
    let insts = [n("one._t._tcp.local"), n("two._u._udp.local")];
    // (time, service, Some(port) = register / None = unregister that was answered OK, log index before the call)
    let mut evs: Vec<(u64, usize, Option<u16>, usize)> = vec![];
    let mut if1_from: Option<u64> = None;
    let mut solicited: Vec<(usize, usize)> = vec![];
    let mut next_q = base + 60;
    let mut idle = |w: &mut World, ms: u64, if1_from: &Option<u64>, solicited: &mut Vec<(usize, usize)>| {
        let end = w.now + ms;
        while w.now < end {
            w.run_until(next_q.min(end));
            while next_q < w.now {
                next_q += 250;
            }
            if w.now == next_q {
                let mut ifs = vec![(IF0, PEER0)];
                if if1_from.is_some_and(|t| w.now >= t + 1100) {
                    ifs.push((IF1, PEER1));
                }
                for (i, src) in ifs {
                    let q = query(vec![(n("_t._tcp.local"), T_PTR), (n("_u._udp.local"), T_PTR), (n("one._t._tcp.local"), T_ANY), (n("two._u._udp.local"), T_ANY)]);
                    let from = w.log.len();
                    w.deliver(0, i, src, build(&q));
                    solicited.push((from, w.log.len()));
                }
                next_q += 250;
            }
        }
    };
    let mut registered: [Option<u16>; 2] = [None, None];
    for op in seq {
        match op {
            HOp::Reg1 | HOp::Reg1NewPort | HOp::Reg2 => {
                let (sv, ty, inst, port) = match op {
                    HOp::Reg1 => (0, "_t._tcp.local.", "one", 80),
                    HOp::Reg1NewPort => (0, "_t._tcp.local.", "one", 8080),
                    _ => (1, "_u._udp.local.", "two", 81),
                };
                let lix = w.log.len();
                w.ds[0].h.register(svc(ty, inst, "host.local.", ips, port, &[("k", "v")])).unwrap();
                w.poke(0);
                evs.push((w.now, sv, Some(port), lix));
                registered[sv] = Some(port);
            }
            HOp::Unreg1 | HOp::Unreg2 => {
                let sv = if *op == HOp::Unreg1 { 0 } else { 1 };
                let lix = w.log.len();
                let _ = w.ds[0].h.unregister(if sv == 0 { "one._t._tcp.local." } else { "two._u._udp.local." }).unwrap();
                w.poke(0);
                if registered[sv].take().is_some() {
                    evs.push((w.now, sv, None, lix));
                }
            }
            HOp::Idle300 => idle(&mut w, 300, &if1_from, &mut solicited),
            HOp::Idle2s => idle(&mut w, 2000, &if1_from, &mut solicited),
            HOp::IfAppears => {
                if if1_from.is_none() {
                    table.push(v4("sim1", IF1, "10.0.1.1", 24));
                    w.ds[0].ctl.set_intfs(table.clone());
                    if1_from = Some(w.now);
                }
            }
        }
    }
    idle(&mut w, 4300, &if1_from, &mut solicited);
    let end = w.now;
    if let Some(f) = daemon_fault(&w, 0) {
        res.viols.push(viol("C07|H|daemon-fault", f));
        return res;
    }
    // (time, packet, solicited?, log index)
    let all: Vec<(u64, Out, bool, usize)> = w
        .log
        .iter()
        .enumerate()
        .filter_map(|(ix, e)| match &e.kind {
            Kind::Out(o) => Some((e.t, o.clone(), solicited.iter().any(|(a, b)| ix >= *a && ix < *b), ix)),
            _ => None,
        })
        .collect();
    let mut ifs: Vec<(u32, u64)> = vec![(IF0, 0)];
    if let Some(t) = if1_from {
        ifs.push((IF1, t));
    }
    for sv in 0..2 {
        let my: Vec<&(u64, usize, Option<u16>, usize)> = evs.iter().filter(|e| e.1 == sv).collect();
        for (k, ev) in my.iter().enumerate() {
            let Some(port) = ev.2 else { continue };
            let t_k = ev.0;
            let e_k = my.get(k + 1).map_or(end, |n| n.0);
            // the registration's window in log positions (several calls may share a millisecond)
            let lix_k = ev.3;
            let lix_end = my.get(k + 1).map_or(usize::MAX, |n| n.3);
            for &(i, if_from) in &ifs {
                // an interface that appeared is known to the daemon at its next periodic check (<= 1 s)
                let known_by = if if_from > 0 { if_from + 1000 } else { 0 };
                let (start, bound) = (t_k.max(if_from), t_k.max(known_by) + 1000);
                if start > e_k {
                    continue; // the interface appeared after this registration was over
                }
                let on_if: Vec<&(u64, Out, bool, usize)> = all.iter().filter(|(_, o, _, _)| o.if_index == Some(i)).collect();
                let names = |m: &Msg| m.all_records().any(|r| r.ttl > 0 && (name_eq_ci(&r.name, &insts[sv]) || matches!(&r.rd, RD::Ptr(t) if name_eq_ci(t, &insts[sv]))));
                let is_ann = |o: &Out, want_port: Option<u16>| -> bool {
                    o.is_multicast()
                        && o.msg.as_ref().is_ok_and(|m| {
                            m.is_response()
                                && m.answers.iter().any(|r| r.rtype == T_PTR && r.ttl > 0 && name_eq_ci(&r.name, &tys[sv]) && matches!(&r.rd, RD::Ptr(t) if name_eq_ci(t, &insts[sv])))
                                && m.answers.iter().any(|r| r.rtype == T_SRV && name_eq_ci(&r.name, &insts[sv]) && matches!(&r.rd, RD::Srv { port: p, .. } if want_port.map_or(true, |w| w == *p)))
                        })
                };
                let in_window = |t: u64, ix: usize| ix >= lix_k && ix < lix_end && t >= if_from;
                // (time, log index) of this registration's unsolicited announcements
                let anns: Vec<(u64, usize)> = on_if.iter().filter(|(t, o, sol, ix)| !*sol && in_window(*t, *ix) && is_ann(o, Some(port))).map(|(t, _, _, ix)| (*t, *ix)).collect();
                let ann_times: BTreeSet<u64> = anns.iter().map(|a| a.0).collect();
                let tag = format!("svc{sv} if {i} registration at +{} (port {port}, window ends +{})", t_k - base, e_k - base);
                let a1 = anns.first().copied();
                if e_k > bound {
                    match a1 {
                        Some((a, _)) if a <= bound => res.count("announced_within_bound", 1),
                        _ => {
                            res.viols.push(viol("C07|H|registration-not-announced-within-the-bound", format!("{tag}: announcements with these values at {:?}, bound +{}", ann_times.iter().map(|t| t - base).collect::<Vec<_>>(), bound - base)));
                            continue;
                        }
                    }
                }
                let Some((a1, a1_ix)) = a1 else { continue };
                // did the daemon hold the instance name on i when the call was made?
                let last_unreg_lix = my[..k].iter().rev().find(|e| e.2.is_none()).map_or(0, |e| e.3);
                let held = on_if.iter().any(|(t, o, _, ix)| *ix < lix_k && *ix >= last_unreg_lix && *t >= if_from && is_ann(o, None) && o.msg.as_ref().is_ok_and(|m| m.answers.iter().all(|r| r.ttl > 0)));
                if !held {
                    res.count("registrations_of_a_name_not_held", 1);
                    for (t, o, _, ix) in &on_if {
                        if in_window(*t, *ix) && *ix < a1_ix {
                            if let Ok(m) = &o.msg {
                                if m.is_response() && names(m) {
                                    res.viols.push(viol("C07|H|answered-or-announced-before-probing-finished", format!("{tag}: at +{} before its announcement at +{}: {}", t - base, a1 - base, m.summary())));
                                }
                            }
                        }
                    }
                    let probes: BTreeSet<u64> = on_if
                        .iter()
                        .filter(|(t, o, _, ix)| *ix >= last_unreg_lix && *ix < a1_ix && *t >= if_from && o.msg.as_ref().is_ok_and(|m| !m.is_response() && asks(m, &insts[sv], T_ANY) && m.authorities.iter().any(|r| r.rtype == T_SRV && name_eq_ci(&r.name, &insts[sv]))))
                        .map(|(t, _, _, _)| *t)
                        .collect();
                    if !probes.iter().any(|&t| probes.contains(&(t + 250)) && probes.contains(&(t + 500)) && t + 750 <= a1) {
                        res.viols.push(viol("C07|H|instance-name-not-probed-3x250ms-before-announcement", format!("{tag}: probes at {:?}, announcement +{}", probes.iter().map(|t| t - base).collect::<Vec<_>>(), a1 - base)));
                    } else {
                        res.count("instance_probe_triples", 1);
                    }
                } else {
                    res.count("registrations_of_a_name_already_held", 1);
                }
                if e_k > a1 + 1000 && !ann_times.contains(&(a1 + 1000)) {
                    res.viols.push(viol("C07|H|no-second-announcement-after-1s", format!("{tag}: announcements at {:?}", ann_times.iter().map(|t| t - base).collect::<Vec<_>>())));
                }
            }
        }
    }
    res.nontrivial = !evs.is_empty();
    res.transitions = w.steps;
    res.outcome = outcome_hash(&w.log);
    res.states = final_states(&w);
    res
}

// ---------------------------------------------------------------- an interface (or one of its families) comes back

/// x = [variant, jitter index, gap index].  Variant 0: the only interface is disabled by name and
/// enabled again after the gap; 1: an IPv6 address appears on the interface the service is already
/// announced on over IPv4 (the service has an address of each family); 2: IPv6 was disabled before
/// the registration and is enabled afterwards.  On the (interface, family) that came (back) the
/// service must be probed three times, then announced twice one second apart, within the bound;
/// where the whole interface had been given up (variant 0) nothing naming the instance may be
/// sent in a response there before the probes are through.
fn run_comes_back(x: &[u64], trace: bool) -> CaseResult {
    let mut res = CaseResult::default();
    let (variant, jitter, gap) = (x[0], [0u64, 137, 249][x[1] as usize], [300u64, 2000][x[2] as usize]);
    let mut table = if variant == 2 { lay_dual() } else { lay_v4() };
    let mut w = World::one(table.clone());
    w.trace = trace;
    w.ds[0].ctl.set_rng_default(jitter);
    w.ds[0].h.set_ip_check_interval(1).unwrap();
    w.poke(0);
    w.advance(5100);
    if variant == 2 {
        w.ds[0].h.disable_interface(IfKind::IPv6).unwrap();
        w.poke(0);
    }
    let ips = if variant == 0 { "10.0.0.5" } else { "10.0.0.5,fd00::5" };
    w.ds[0].h.register(svc("_t._tcp.local.", "one", "host.local.", ips, 80, &[("k", "v")])).unwrap();
    w.poke(0);
    w.advance(3000);
    let mut known_delay = 0;
    match variant {
        0 => {
            w.ds[0].h.disable_interface("sim0").unwrap();
            w.poke(0);
            w.advance(gap);
            w.ds[0].h.enable_interface("sim0").unwrap();
            w.poke(0);
        }
        1 => {
            w.advance(gap);
            table.push(v6("sim0", IF0, "fd00::1", 64));
            w.ds[0].ctl.set_intfs(table.clone());
            known_delay = 1000; // seen at the next periodic check
        }
        _ => {
            w.advance(gap);
            w.ds[0].h.enable_interface(IfKind::IPv6).unwrap();
            w.poke(0);
        }
    }
    let t_e = w.now;
    let want_v6 = variant != 0;
    let ty = n("_t._tcp.local");
    let inst = n("one._t._tcp.local");
    // ask about the service every 125 ms over the family in question
    let mut solicited: Vec<(usize, usize)> = vec![];
    let end = t_e + known_delay + 4500;
    let mut next_q = t_e + 60;
    while w.now < end {
        w.run_until(next_q.min(end));
        if w.now == next_q {
            let q = query(vec![(ty.clone(), T_PTR), (inst.clone(), T_ANY)]);
            let from = w.log.len();
            w.deliver(0, IF0, if want_v6 { PEER0_V6 } else { PEER0 }, build(&q));
            solicited.push((from, w.log.len()));
            next_q += 125;
        }
    }
    if let Some(f) = daemon_fault(&w, 0) {
        res.viols.push(viol("C07|B|daemon-fault", f));
        return res;
    }
    let tag = ["interface-disabled-and-enabled-again", "ipv6-address-appears-on-the-announced-interface", "ipv6-enabled-after-the-registration"][variant as usize];
    let lix_e = w.log.iter().position(|e| e.t >= t_e).unwrap_or(w.log.len());
    let outs_f: Vec<(u64, &Out, bool)> = w.log.iter().enumerate().skip(lix_e).filter_map(|(ix, e)| match &e.kind {
        Kind::Out(o) if o.if_index == Some(IF0) && o.dst.is_ipv6() == want_v6 => Some((e.t, o, solicited.iter().any(|(a, b)| ix >= *a && ix < *b))),
        _ => None,
    }).collect();
    let is_ann = |o: &Out| o.is_multicast() && o.msg.as_ref().is_ok_and(|m| m.is_response() && m.answers.iter().any(|r| r.rtype == T_PTR && r.ttl > 0 && name_eq_ci(&r.name, &ty) && matches!(&r.rd, RD::Ptr(t) if name_eq_ci(t, &inst))) && m.answers.iter().any(|r| r.rtype == T_SRV && r.ttl > 0 && name_eq_ci(&r.name, &inst)));
    // (where the instance name is already held on the interface, only the host's new address is proposed)
    let host = n("host.local");
    let is_probe = |o: &Out| o.msg.as_ref().is_ok_and(|m| !m.is_response() && [&inst, &host].iter().any(|nm| m.questions.iter().any(|q| q.qtype == T_ANY && name_eq_ci(&q.name, nm)) && m.authorities.iter().any(|r| name_eq_ci(&r.name, nm))));
    let anns: Vec<u64> = outs_f.iter().filter(|(_, o, sol)| !*sol && is_ann(o)).map(|(t, _, _)| *t).collect();
    let probes: Vec<u64> = outs_f.iter().filter(|(_, o, _)| is_probe(o)).map(|(t, _, _)| *t).collect();
    let rel = |v: &[u64]| v.iter().map(|t| t - t_e).collect::<Vec<_>>();
    let ctx = format!("jitter {jitter} gap {gap}: after the event probes at {:?}, unsolicited announcements at {:?} (ms)", rel(&probes), rel(&anns));
    let bound = t_e + known_delay + 250 + 750 + 60;
    res.count("comebacks_checked", 1);
    match anns.first() {
        Some(a1) if *a1 <= bound => {
            if !anns.iter().any(|a| *a >= a1 + 900 && *a <= a1 + 1100) {
                res.viols.push(viol(format!("C07|B|no-second-announcement-one-second-after-the-first|{tag}"), ctx.clone()));
            }
            let before: Vec<u64> = probes.iter().copied().filter(|p| p < a1).collect();
            if before.len() < 3 || before.windows(2).any(|p| p[1] - p[0] < 250) || a1 - before[before.len() - 1] < 250 {
                res.viols.push(viol(format!("C07|B|announced-without-three-probes-250ms-apart|{tag}"), ctx.clone()));
            }
            if variant == 0 {
                let early: Vec<u64> = outs_f.iter().filter(|(t, o, _)| t < a1 && o.msg.as_ref().is_ok_and(|m| m.is_response() && m.all_records().any(|r| r.ttl > 0 && (name_eq_ci(&r.name, &inst) || matches!(&r.rd, RD::Ptr(t) if name_eq_ci(t, &inst)))))).map(|(t, _, _)| *t).collect();
                if !early.is_empty() {
                    res.viols.push(viol(format!("C07|B|answered-for-before-the-probes-were-through|{tag}"), format!("responses naming the instance at {:?}; {ctx}", rel(&early))));
                }
            }
        }
        _ => res.viols.push(viol(format!("C07|B|not-announced-within-the-bound|{tag}"), format!("bound +{}; {ctx}", bound - t_e))),
    }
    res.nontrivial = true;
    res.transitions = w.steps;
    res.outcome = outcome_hash(&w.log);
    res.states = final_states(&w);
    res
}

// ---------------------------------------------------------------- probing starts over after a lost tiebreak

/// While the service is probing, a peer's simultaneous probe with later data arrives (for the host
/// name or for the instance name, after the first or the second probe).  The daemon defers and
/// starts over: the new round must again consist of three probes 250 ms apart and 250 ms of quiet
/// before the announcement.  x = [0 host / 1 instance, 0 after the 1st / 1 after the 2nd probe, jitter index].
fn run_lost_tiebreak(x: &[u64], trace: bool) -> CaseResult {
    let mut res = CaseResult::default();
    let jitter = [0u64, 137, 249][x[2] as usize];
    let mut w = World::one(lay_v4());
    w.trace = trace;
    w.ds[0].ctl.set_rng_default(jitter);
    w.ds[0].h.set_ip_check_interval(0).unwrap();
    w.poke(0);
    let t_reg = w.now;
    w.ds[0].h.register(svc("_t._tcp.local.", "one", "host.local.", "10.0.0.5", 80, &[("k", "v")])).unwrap();
    w.poke(0);
    w.run_until(t_reg + jitter + 40 + 250 * x[1]);
    let inst = n("one._t._tcp.local");
    let host = n("host.local");
    let ty = n("_t._tcp.local");
    let mut q = if x[0] == 0 { query(vec![(host.clone(), T_ANY)]) } else { query(vec![(inst.clone(), T_ANY)]) };
    let mut r = if x[0] == 0 { a(&host, [10, 0, 0, 200], 120) } else { srv(&inst, &n("zzz.local"), 9999, 120) };
    r.flush = false;
    q.authorities.push(r);
    let t_loss = w.now;
    w.deliver(0, IF0, PEER0, build(&q));
    w.run_until(t_loss + 6000);
    if let Some(f) = daemon_fault(&w, 0) {
        res.viols.push(viol("C07|T|daemon-fault", f));
        return res;
    }
    let all = outs(&w, 0, 0);
    let what = if x[0] == 0 { &host } else { &inst };
    let probes: Vec<u64> = all.iter().filter(|(t, o)| *t > t_loss && o.msg.as_ref().is_ok_and(|m| !m.is_response() && m.questions.iter().any(|q| q.qtype == T_ANY && name_eq_ci(&q.name, what)) && !m.authorities.is_empty())).map(|(t, _)| *t).collect();
    let anns: Vec<u64> = all.iter().filter(|(t, o)| *t > t_loss && o.is_multicast() && o.msg.as_ref().is_ok_and(|m| m.is_response() && m.answers.iter().any(|r| r.rtype == T_PTR && r.ttl > 0 && name_eq_ci(&r.name, &ty)))).map(|(t, _)| *t).collect();
    let rel = |v: &[u64]| v.iter().map(|t| t - t_loss).collect::<Vec<_>>();
    let ctx = format!("{} tiebreak lost after probe {} (jitter {jitter}): afterwards probes at {:?}, announcements at {:?} (ms after the loss)", if x[0] == 0 { "host-name" } else { "instance-name" }, x[1] + 1, rel(&probes), rel(&anns));
    res.count("lost_tiebreaks_checked", 1);
    match anns.first() {
        None => res.viols.push(viol("C07|T|not-announced-after-a-lost-tiebreak-against-a-peer-that-then-stays-silent", ctx)),
        Some(a1) => {
            let before: Vec<u64> = probes.iter().copied().filter(|p| p < a1).collect();
            if before.len() < 3 || before[before.len() - 3..].windows(2).any(|p| p[1] - p[0] < 250) || a1 - before[before.len() - 1] < 250 {
                res.viols.push(viol(format!("C07|T|announced-without-three-probes-250ms-apart-after-a-lost-tiebreak|{}", if x[0] == 0 { "host" } else { "instance" }), ctx));
            }
        }
    }
    res.nontrivial = true;
    res.transitions = w.steps;
    res.outcome = outcome_hash(&w.log);
    res.states = final_states(&w);
    res
}

pub fn check(tier: &str) -> i32 {
    let mut rep = Report::new("C07", tier, "model_checking");
    let thorough = rep.thorough();
    rep.assume("the daemon is woken exactly at the wake-up time it asked for (lock-step gate); jitter values come from the explorer's script");
    // dims: subtype, family, two_intf, second, j1, later
    let dims: Vec<u64> = if thorough {
        vec![2, 3, 2, 5, 250, 3]
    } else {
        vec![2, 2, 2, 3, 250, 3]
    };
    let cfg_of = |i: u64| -> Cfg {
        let x = unrank(i, &dims);
        if thorough {
            Cfg { subtype: x[0] == 1, family: x[1], two_intf: x[2] == 1, second: x[3], j1: x[4], later: x[5], probe: true, label: "one", extra_addr: false }
        } else {
            Cfg { subtype: x[0] == 1, family: [0, 2][x[1] as usize], two_intf: x[2] == 1, second: [0, 1, 3][x[3] as usize], j1: x[4], later: x[5], probe: true, label: "one", extra_addr: false }
        }
    };
    let main = FnPart {
        name: "probe-announce-schedule".into(),
        rule: "registration configuration (subtype, IP families, 1-2 interfaces, second service sharing the host at an offset) x every first jitter 0..249 x later draws; each execution registers, is queried on a 125 ms grid, runs 4.2 s; non-trivial = at least one service reached its first announcement".into(),
        n: product(&dims),
        describe: Box::new(|i| format!("{:?}", cfg_of(i))),
        run: Box::new(|i, tr| run_case(&cfg_of(i), tr)),
    };
    rep.run_part(&main, Duration::from_secs(if thorough { 3000 } else { 50 }));
    // control: probing disabled
    let cdims = [2u64, 3, 2, 2];
    let ctl = FnPart {
        name: "no-probe-control".into(),
        rule: "requires_probe(false): announced at once and again after 1 s, no probe queries required".into(),
        n: product(&cdims),
        describe: Box::new(|i| format!("{:?}", unrank(i, &cdims))),
        run: Box::new(|i, tr| {
            let x = unrank(i, &cdims);
            run_case(&Cfg { subtype: x[0] == 1, family: x[1], two_intf: x[2] == 1, second: x[3] * 2, j1: 100, later: 0, probe: false, label: "one", extra_addr: false }, tr)
        }),
    };
    rep.run_part(&ctl, Duration::from_secs(60));
    // other instance-name shapes
    const LABELS: [&str; 5] = ["One", "MY PRINTER", "Ünal Büro", "My.Printer", "nnnnnnnnnnnnnnnnnnnnnnnnnnnnnnnnnnnnnnnnnnnnnnnnnnnnnnnnnnnnnnn"];
    let sdims = [LABELS.len() as u64 + 1, 3, 2, 2];
    let shapes = FnPart {
        name: "instance-name-shapes".into(),
        rule: "the same schedule oracle for instance labels with capital letters, non-ASCII capitals, a dot inside the label and 63 bytes, and for a service with two addresses of one family on the link, x 3 jitters x (IPv4 / dual) x (alone / second service 300 ms later)".into(),
        n: product(&sdims),
        describe: Box::new(move |i| { let x = unrank(i, &sdims); format!("label {:?} jitter {} family {} second {}", if (x[0] as usize) < LABELS.len() { LABELS[x[0] as usize] } else { "one, two addresses of one family on the link" }, [0, 137, 249][x[1] as usize], [0, 2][x[2] as usize], x[3]) }),
        run: Box::new(move |i, tr| {
            let x = unrank(i, &sdims);
            let extra = x[0] as usize == LABELS.len();
            run_case(&Cfg { subtype: false, family: [0, 2][x[2] as usize], two_intf: false, second: x[3] * 3, j1: [0, 137, 249][x[1] as usize], later: 1, probe: true, label: if extra { "one" } else { LABELS[x[0] as usize] }, extra_addr: extra }, tr)
        }),
    };
    rep.run_part(&shapes, Duration::from_secs(60));
    let hdepth = if thorough { 5 } else { 4 };
    let nh = HOPS.len() as u64;
    let mut nhs = 0u64;
    let mut b = 1u64;
    for _ in 0..=hdepth {
        nhs += b;
        b *= nh;
    }
    let hseq = move |mut idx: u64| -> Vec<HOp> {
        let mut len = 0;
        let mut block = 1u64;
        while idx >= block {
            idx -= block;
            block *= nh;
            len += 1;
        }
        (0..len).map(|_| { let x = idx % nh; idx /= nh; HOPS[x as usize] }).collect()
    };
    let hj = [0u64, 137, 249];
    let hist = FnPart {
        name: "registration-histories".into(),
        rule: format!("every sequence of <= {hdepth} events over [register S1, re-register S1 with another port, register S2 (same host), unregister S1, unregister S2, idle 0.3 s, idle 2 s, a second interface appears] x 3 jitters x (own multicasts not heard / heard, as with the crate's default IP_MULTICAST_LOOP), queried every 250 ms, 4.3 s horizon; per (service, interface, registration): announced within the bound with that registration's values, not answered before three probes when the name was not held, second announcement after 1 s; non-trivial = at least one registration"),
        n: nhs * 6,
        describe: Box::new(move |i| format!("{:?} jitter {}{}", hseq(i / 6), hj[(i % 3) as usize], if i % 6 >= 3 { " multicast-loop" } else { "" })),
        run: Box::new(move |i, tr| run_hist(&hseq(i / 6), hj[(i % 3) as usize], i % 6 >= 3, tr)),
    };
    rep.run_part(&hist, Duration::from_secs(if thorough { 3000 } else { 50 }));
    let tdims = [2u64, 2, 3];
    let lost = FnPart {
        name: "probing-starts-over-after-a-lost-tiebreak".into(),
        rule: "a registration is probing; after its 1st / 2nd probe a peer's simultaneous probe with later data for the (host | instance) name arrives, then the peer stays silent; 3 jitters; the round the daemon starts over with must again be three probes 250 ms apart and 250 ms of quiet before the first announcement".into(),
        n: product(&tdims),
        describe: Box::new(move |i| format!("{:?}", unrank(i, &tdims))),
        run: Box::new(move |i, tr| run_lost_tiebreak(&unrank(i, &tdims), tr)),
    };
    rep.run_part(&lost, Duration::from_secs(120));
    rep.require("probing-starts-over-after-a-lost-tiebreak", "lost_tiebreaks_checked");
    let bdims = [3u64, 3, 2];
    let back = FnPart {
        name: "interface-or-family-comes-back".into(),
        rule: "an announced service x (its only interface is disabled by name and enabled again | an IPv6 address appears on the interface it is announced on over IPv4 | IPv6, disabled before the registration, is enabled) x 3 jitters x gap {0.3, 2 s}; asked every 125 ms; on the interface and family that came (back): three probes 250 ms apart, first announcement within the bound, a second one second later, and - where the interface had been given up - no response naming the instance before that".into(),
        n: product(&bdims),
        describe: Box::new(move |i| format!("{:?}", unrank(i, &bdims))),
        run: Box::new(move |i, tr| run_comes_back(&unrank(i, &bdims), tr)),
    };
    rep.run_part(&back, Duration::from_secs(120));
    rep.require("interface-or-family-comes-back", "comebacks_checked");
    rep.require("registration-histories", "announced_within_bound");
    rep.require("registration-histories", "registrations_of_a_name_not_held");
    rep.require("registration-histories", "registrations_of_a_name_already_held");
    rep.require("probe-announce-schedule", "instance_probe_triples");
    rep.require("probe-announce-schedule", "host_probe_triples");
    rep.require("probe-announce-schedule", "announcements_checked");
    rep.finish()
}
