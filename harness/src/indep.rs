//! Independent RFC 1035 / RFC 6762 codec. Shares no code with the crate under test.
//!
//! Names are label sequences (`Vec<Vec<u8>>`), never dotted strings, so a label containing
//! `.` or `\` stays one label.
use std::collections::HashSet;
use std::fmt::Write as _;

pub type Label = Vec<u8>;
pub type Name = Vec<Label>;

pub const T_A: u16 = 1;
pub const T_CNAME: u16 = 5;
pub const T_PTR: u16 = 12;
pub const T_HINFO: u16 = 13;
pub const T_TXT: u16 = 16;
pub const T_AAAA: u16 = 28;
pub const T_SRV: u16 = 33;
pub const T_NSEC: u16 = 47;
pub const T_ANY: u16 = 255;
pub const C_IN: u16 = 1;
pub const C_FLUSH: u16 = 0x8000;
pub const F_RESP: u16 = 0x8000;
pub const F_AA: u16 = 0x0400;
pub const F_TC: u16 = 0x0200;

/// Splits a plain dotted name (no escapes) into labels. Trailing dot optional.
pub fn n(s: &str) -> Name {
    s.trim_end_matches('.')
        .split('.')
        .filter(|l| !l.is_empty())
        .map(|l| l.as_bytes().to_vec())
        .collect()
}

/// Explicit labels.
pub fn nl(ls: &[&[u8]]) -> Name {
    ls.iter().map(|l| l.to_vec()).collect()
}

/// The crate's representation of a received name: labels joined by '.', trailing '.', no escaping.
pub fn dotted(name: &Name) -> String {
    let mut s = String::new();
    for l in name {
        s.push_str(&String::from_utf8_lossy(l));
        s.push('.');
    }
    s
}

/// Lower-cased copy (ASCII only, like DNS).
pub fn lower(name: &Name) -> Name {
    name.iter().map(|l| l.to_ascii_lowercase()).collect()
}

pub fn name_eq_ci(a: &Name, b: &Name) -> bool {
    lower(a) == lower(b)
}

pub fn show_name(name: &Name) -> String {
    let mut s = String::new();
    for l in name {
        s.push('[');
        for &b in l {
            if (0x21..0x7f).contains(&b) && b != b'[' && b != b']' {
                s.push(b as char);
            } else {
                let _ = write!(s, "\\x{b:02x}");
            }
        }
        s.push(']');
    }
    s
}

#[derive(Clone, Debug, PartialEq, Eq, Hash, PartialOrd, Ord)]
pub enum RD {
    A([u8; 4]),
    Aaaa([u8; 16]),
    Ptr(Name),
    Srv {
        priority: u16,
        weight: u16,
        port: u16,
        target: Name,
    },
    Txt(Vec<u8>),
    Nsec {
        next: Name,
        rest: Vec<u8>,
    },
    Other(Vec<u8>),
}

#[derive(Clone, Debug, PartialEq, Eq, Hash, PartialOrd, Ord)]
pub struct Question {
    pub name: Name,
    pub qtype: u16,
    /// raw class field (top bit = unicast-response bit)
    pub qclass: u16,
}

#[derive(Clone, Debug, PartialEq, Eq, Hash, PartialOrd, Ord)]
pub struct Record {
    pub name: Name,
    pub rtype: u16,
    /// class without the cache-flush bit
    pub class: u16,
    pub flush: bool,
    pub ttl: u32,
    pub rd: RD,
}

#[derive(Clone, Debug, Default, PartialEq, Eq, Hash)]
pub struct Msg {
    pub id: u16,
    pub flags: u16,
    pub questions: Vec<Question>,
    pub answers: Vec<Record>,
    pub authorities: Vec<Record>,
    pub additionals: Vec<Record>,
}

impl Msg {
    pub fn is_response(&self) -> bool {
        self.flags & F_RESP != 0
    }
    pub fn all_records(&self) -> impl Iterator<Item = &Record> {
        self.answers
            .iter()
            .chain(self.authorities.iter())
            .chain(self.additionals.iter())
    }
    pub fn summary(&self) -> String {
        let mut s = String::new();
        let _ = write!(
            s,
            "{} id={} fl={:04x}",
            if self.is_response() { "RESP" } else { "QUERY" },
            self.id,
            self.flags
        );
        for q in &self.questions {
            let _ = write!(s, " Q({} t{} c{:x})", show_name(&q.name), q.qtype, q.qclass);
        }
        for (sec, v) in [
            ("AN", &self.answers),
            ("NS", &self.authorities),
            ("AR", &self.additionals),
        ] {
            for r in v {
                let _ = write!(s, " {}({})", sec, r.summary());
            }
        }
        s
    }
}

impl Record {
    pub fn summary(&self) -> String {
        let rd = match &self.rd {
            RD::A(a) => format!("{}.{}.{}.{}", a[0], a[1], a[2], a[3]),
            RD::Aaaa(a) => format!("{}", std::net::Ipv6Addr::from(*a)),
            RD::Ptr(nm) => show_name(nm),
            RD::Srv {
                priority,
                weight,
                port,
                target,
            } => format!("{priority}/{weight}/{port} {}", show_name(target)),
            RD::Txt(t) => format!("txt:{}", hex(t)),
            RD::Nsec { next, rest } => format!("nsec {} {}", show_name(next), hex(rest)),
            RD::Other(o) => format!("raw:{}", hex(o)),
        };
        format!(
            "{} t{} c{}{} ttl{} {}",
            show_name(&self.name),
            self.rtype,
            self.class,
            if self.flush { "F" } else { "" },
            self.ttl,
            rd
        )
    }
}

pub fn hex(b: &[u8]) -> String {
    let mut s = String::with_capacity(b.len() * 2);
    for x in b {
        let _ = write!(s, "{x:02x}");
    }
    s
}

pub fn unhex(s: &str) -> Vec<u8> {
    (0..s.len() / 2)
        .map(|i| u8::from_str_radix(&s[2 * i..2 * i + 2], 16).unwrap())
        .collect()
}

// ---------------------------------------------------------------- parser

struct P<'a> {
    d: &'a [u8],
    o: usize,
}

fn rd16(d: &[u8], o: usize) -> Result<u16, String> {
    if o + 2 > d.len() {
        return Err(format!("short u16 at {o}"));
    }
    Ok(u16::from_be_bytes([d[o], d[o + 1]]))
}

/// Reads a name starting at `start`. Returns (labels, offset after the name in the original
/// stream). Compression pointers must point strictly before the pointer itself, no offset is
/// visited twice, and the total wire length is capped at 255 (RFC 1035 section 2.3.4).
pub fn read_name(d: &[u8], start: usize) -> Result<(Name, usize), String> {
    let mut labels = Vec::new();
    let mut o = start;
    let mut end = None;
    let mut visited: HashSet<usize> = HashSet::new();
    let mut wire_len = 1usize;
    loop {
        if o >= d.len() {
            return Err(format!("name runs past end at {o}"));
        }
        if !visited.insert(o) {
            return Err(format!("name loop at {o}"));
        }
        let l = d[o] as usize;
        if l == 0 {
            if end.is_none() {
                end = Some(o + 1);
            }
            break;
        }
        match l & 0xC0 {
            0 => {
                if o + 1 + l > d.len() {
                    return Err(format!("label past end at {o}"));
                }
                wire_len += 1 + l;
                if wire_len > 255 {
                    return Err("name longer than 255".into());
                }
                labels.push(d[o + 1..o + 1 + l].to_vec());
                o += 1 + l;
            }
            0xC0 => {
                if o + 2 > d.len() {
                    return Err(format!("pointer past end at {o}"));
                }
                let p = (((l & 0x3F) as usize) << 8) | d[o + 1] as usize;
                if p >= o {
                    return Err(format!("pointer at {o} not backwards ({p})"));
                }
                if end.is_none() {
                    end = Some(o + 2);
                }
                o = p;
            }
            _ => return Err(format!("bad label type {l:#x} at {o}")),
        }
    }
    Ok((labels, end.unwrap()))
}

impl<'a> P<'a> {
    fn name(&mut self) -> Result<Name, String> {
        let (nm, e) = read_name(self.d, self.o)?;
        self.o = e;
        Ok(nm)
    }
    fn u16(&mut self) -> Result<u16, String> {
        let v = rd16(self.d, self.o)?;
        self.o += 2;
        Ok(v)
    }
    fn u32(&mut self) -> Result<u32, String> {
        if self.o + 4 > self.d.len() {
            return Err(format!("short u32 at {}", self.o));
        }
        let v = u32::from_be_bytes([
            self.d[self.o],
            self.d[self.o + 1],
            self.d[self.o + 2],
            self.d[self.o + 3],
        ]);
        self.o += 4;
        Ok(v)
    }
    fn record(&mut self) -> Result<Record, String> {
        let name = self.name()?;
        let rtype = self.u16()?;
        let class = self.u16()?;
        let ttl = self.u32()?;
        let rdlen = self.u16()? as usize;
        let rs = self.o;
        let re = rs + rdlen;
        if re > self.d.len() {
            return Err(format!("rdata past end ({rs}+{rdlen})"));
        }
        let raw = &self.d[rs..re];
        let within = |e: usize| -> Result<(), String> {
            if e > re {
                Err("name inside rdata runs past rdlength".to_string())
            } else {
                Ok(())
            }
        };
        let rd = match rtype {
            T_A => {
                if rdlen != 4 {
                    return Err("A rdlength != 4".into());
                }
                RD::A([raw[0], raw[1], raw[2], raw[3]])
            }
            T_AAAA => {
                if rdlen != 16 {
                    return Err("AAAA rdlength != 16".into());
                }
                let mut a = [0u8; 16];
                a.copy_from_slice(raw);
                RD::Aaaa(a)
            }
            T_PTR | T_CNAME => {
                let (nm, e) = read_name(self.d, rs)?;
                within(e)?;
                if e != re {
                    return Err("PTR rdata has trailing bytes".into());
                }
                RD::Ptr(nm)
            }
            T_SRV => {
                if rdlen < 7 {
                    return Err("SRV too short".into());
                }
                let priority = rd16(self.d, rs)?;
                let weight = rd16(self.d, rs + 2)?;
                let port = rd16(self.d, rs + 4)?;
                let (target, e) = read_name(self.d, rs + 6)?;
                within(e)?;
                if e != re {
                    return Err("SRV rdata has trailing bytes".into());
                }
                RD::Srv {
                    priority,
                    weight,
                    port,
                    target,
                }
            }
            T_TXT => RD::Txt(raw.to_vec()),
            T_NSEC => {
                let (next, e) = read_name(self.d, rs)?;
                within(e)?;
                RD::Nsec {
                    next,
                    rest: self.d[e..re].to_vec(),
                }
            }
            _ => RD::Other(raw.to_vec()),
        };
        self.o = re;
        Ok(Record {
            name,
            rtype,
            class: class & 0x7FFF,
            flush: class & C_FLUSH != 0,
            ttl,
            rd,
        })
    }
}

/// Parses a whole datagram. Trailing bytes after the last counted entry are tolerated.
pub fn parse(d: &[u8]) -> Result<Msg, String> {
    if d.len() < 12 {
        return Err("short header".into());
    }
    let mut p = P { d, o: 12 };
    let mut m = Msg {
        id: rd16(d, 0)?,
        flags: rd16(d, 2)?,
        ..Default::default()
    };
    let (qd, an, ns, ar) = (rd16(d, 4)?, rd16(d, 6)?, rd16(d, 8)?, rd16(d, 10)?);
    for _ in 0..qd {
        let name = p.name()?;
        let qtype = p.u16()?;
        let qclass = p.u16()?;
        m.questions.push(Question {
            name,
            qtype,
            qclass,
        });
    }
    for _ in 0..an {
        m.answers.push(p.record()?);
    }
    for _ in 0..ns {
        m.authorities.push(p.record()?);
    }
    for _ in 0..ar {
        m.additionals.push(p.record()?);
    }
    Ok(m)
}

/// Offset just past the last counted entry (for trailing-byte checks).
pub fn parsed_len(d: &[u8]) -> Result<usize, String> {
    if d.len() < 12 {
        return Err("short header".into());
    }
    let mut p = P { d, o: 12 };
    let (qd, an, ns, ar) = (rd16(d, 4)?, rd16(d, 6)?, rd16(d, 8)?, rd16(d, 10)?);
    for _ in 0..qd {
        p.name()?;
        p.u16()?;
        p.u16()?;
    }
    for _ in 0..(an as usize + ns as usize + ar as usize) {
        p.record()?;
    }
    Ok(p.o)
}

// ---------------------------------------------------------------- builder

pub fn name_bytes(name: &Name) -> Vec<u8> {
    let mut v = Vec::new();
    for l in name {
        assert!(l.len() < 64, "builder: label too long");
        v.push(l.len() as u8);
        v.extend(l);
    }
    v.push(0);
    v
}

pub fn rdata_bytes(rd: &RD) -> Vec<u8> {
    match rd {
        RD::A(a) => a.to_vec(),
        RD::Aaaa(a) => a.to_vec(),
        RD::Ptr(nm) => name_bytes(nm),
        RD::Srv {
            priority,
            weight,
            port,
            target,
        } => {
            let mut v = Vec::new();
            v.extend(priority.to_be_bytes());
            v.extend(weight.to_be_bytes());
            v.extend(port.to_be_bytes());
            v.extend(name_bytes(target));
            v
        }
        RD::Txt(t) => t.clone(),
        RD::Nsec { next, rest } => {
            let mut v = name_bytes(next);
            v.extend(rest);
            v
        }
        RD::Other(o) => o.clone(),
    }
}

pub fn record_bytes(r: &Record) -> Vec<u8> {
    let mut v = name_bytes(&r.name);
    v.extend(r.rtype.to_be_bytes());
    v.extend((r.class | if r.flush { C_FLUSH } else { 0 }).to_be_bytes());
    v.extend(r.ttl.to_be_bytes());
    let rd = rdata_bytes(&r.rd);
    v.extend((rd.len() as u16).to_be_bytes());
    v.extend(rd);
    v
}

pub fn header(id: u16, flags: u16, qd: u16, an: u16, ns: u16, ar: u16) -> Vec<u8> {
    let mut v = Vec::with_capacity(12);
    for x in [id, flags, qd, an, ns, ar] {
        v.extend(x.to_be_bytes());
    }
    v
}

/// Encodes a well-formed message without compression.
pub fn build(m: &Msg) -> Vec<u8> {
    let mut v = header(
        m.id,
        m.flags,
        m.questions.len() as u16,
        m.answers.len() as u16,
        m.authorities.len() as u16,
        m.additionals.len() as u16,
    );
    for q in &m.questions {
        v.extend(name_bytes(&q.name));
        v.extend(q.qtype.to_be_bytes());
        v.extend(q.qclass.to_be_bytes());
    }
    for r in m.all_records() {
        v.extend(record_bytes(r));
    }
    v
}

// ---------------------------------------------------------------- convenience constructors

pub fn rec(name: &Name, rtype: u16, flush: bool, ttl: u32, rd: RD) -> Record {
    Record {
        name: name.clone(),
        rtype,
        class: C_IN,
        flush,
        ttl,
        rd,
    }
}
pub fn ptr(ty: &Name, inst: &Name, ttl: u32) -> Record {
    rec(ty, T_PTR, false, ttl, RD::Ptr(inst.clone()))
}
pub fn srv(inst: &Name, host: &Name, port: u16, ttl: u32) -> Record {
    rec(
        inst,
        T_SRV,
        true,
        ttl,
        RD::Srv {
            priority: 0,
            weight: 0,
            port,
            target: host.clone(),
        },
    )
}
pub fn txt(inst: &Name, data: &[u8], ttl: u32) -> Record {
    rec(inst, T_TXT, true, ttl, RD::Txt(data.to_vec()))
}
pub fn a(host: &Name, ip: [u8; 4], ttl: u32) -> Record {
    rec(host, T_A, true, ttl, RD::A(ip))
}
pub fn aaaa(host: &Name, ip: std::net::Ipv6Addr, ttl: u32) -> Record {
    rec(host, T_AAAA, true, ttl, RD::Aaaa(ip.octets()))
}
pub fn response(answers: Vec<Record>) -> Msg {
    Msg {
        id: 0,
        flags: F_RESP | F_AA,
        answers,
        ..Default::default()
    }
}
pub fn query(questions: Vec<(Name, u16)>) -> Msg {
    Msg {
        id: 0,
        flags: 0,
        questions: questions
            .into_iter()
            .map(|(name, qtype)| Question {
                name,
                qtype,
                qclass: C_IN,
            })
            .collect(),
        ..Default::default()
    }
}

/// TXT RDATA from key/value strings (independent of the crate's encoder).
pub fn txt_rdata(props: &[(&[u8], Option<&[u8]>)]) -> Vec<u8> {
    let mut v = Vec::new();
    for (k, val) in props {
        let mut s = k.to_vec();
        if let Some(x) = val {
            s.push(b'=');
            s.extend_from_slice(x);
        }
        assert!(s.len() <= 255);
        v.push(s.len() as u8);
        v.extend(s);
    }
    if v.is_empty() {
        v.push(0);
    }
    v
}

/// Splits TXT RDATA into its character-strings. Returns Err if a length byte points past the end.
pub fn split_txt(rd: &[u8]) -> Result<Vec<Vec<u8>>, String> {
    let mut out = Vec::new();
    let mut o = 0;
    while o < rd.len() {
        let l = rd[o] as usize;
        if o + 1 + l > rd.len() {
            return Err(format!("txt string at {o} runs past end"));
        }
        out.push(rd[o + 1..o + 1 + l].to_vec());
        o += 1 + l;
    }
    Ok(out)
}
