//! Shared browse scenario for C03 (resolved data is live and received), C04 (everything
//! advertised is found and resolved) and C05 (removals on time and only when true).
use crate::fw::*;
use crate::indep::*;
use crate::refstore::*;
use crate::scn::*;
use crate::sim::*;
use std::collections::BTreeMap;
use std::time::Duration;

#[derive(Clone, Copy, Debug, PartialEq)]
pub enum Op {
    AnnI2,
    AnnI10,
    AnnI120,
    AnnJ120,
    SrvNewPort,
    TxtNew,
    ANewFlush,
    A2NoFlush,
    AOnIf1,
    SameAOnIf1,
    GoodbyeAllI,
    GoodbyeA,
    GoodbyeAInForeign,
    GoodbyeSrvI,
    GoodbyePtrI,
    PtrOnlyI,
    VerifyI,
    Idle400,
    Idle1100,
    Idle5s,
    /// the application browses the type again (new channel, served from the cache first); not part
    /// of `OPS`: used by the scenario variants that list it
    BrowseAgain,
}
pub const OPS: [Op; 20] = [
    Op::AnnI2,
    Op::AnnI10,
    Op::AnnI120,
    Op::AnnJ120,
    Op::SrvNewPort,
    Op::TxtNew,
    Op::ANewFlush,
    Op::A2NoFlush,
    Op::AOnIf1,
    Op::SameAOnIf1,
    Op::GoodbyeAllI,
    Op::GoodbyeA,
    Op::GoodbyeAInForeign,
    Op::GoodbyeSrvI,
    Op::GoodbyePtrI,
    Op::PtrOnlyI,
    Op::VerifyI,
    Op::Idle400,
    Op::Idle1100,
    Op::Idle5s,
];

#[derive(Clone, Copy, PartialEq, Debug)]
pub enum Prop {
    C03,
    C04,
    C05,
}

#[derive(Default, Clone, Debug)]
struct InstState {
    found: bool,
    /// ServiceFound was delivered, no ServiceResolved and no ServiceRemoved since
    found_only: bool,
    reported: bool,
    removed_at: Option<u64>,
}

pub struct Run {
    w: World,
    ch: usize,
    store: Store,
    seen: usize,
    last_obs: u64,
    insts: BTreeMap<Name, InstState>,
    /// log index at which the current step started (events of "this step")
    step_from: usize,
    viols: Vec<Viol>,
    counters: Vec<(&'static str, u64)>,
}

pub struct Scn {
    pub prop: Prop,
    pub horizon_ms: u64,
    pub ops: Vec<Op>,
    /// first label of the host name both instances live on ("h", or one with ASCII and non-ASCII capitals)
    pub host: &'static str,
}
pub const HOST_PLAIN: &str = "h";
pub const HOST_CAPITALS: &str = "Host-\u{c9}cole";

fn ty() -> Name {
    n("_t._tcp.local")
}
// (in the variant with a host name in capitals the instance labels have capitals and a non-ASCII
// letter too: whatever is keyed by an instance name has to cope with the spelling received)
fn inst_i(h: &str) -> Inst {
    Inst::simple(if h == HOST_PLAIN { "inst1" } else { "Inst1 B\u{fc}ro" }, h, [10, 0, 0, 9])
}
fn inst_j(h: &str) -> Inst {
    let mut j = Inst::simple(if h == HOST_PLAIN { "inst2" } else { "INST2" }, h, [10, 0, 0, 9]);
    j.port = 81;
    j.txt = txt_rdata(&[(b"j", None)]);
    j
}

fn parse_txt(rd: &[u8]) -> Vec<(String, Option<Vec<u8>>)> {
    let mut out: Vec<(String, Option<Vec<u8>>)> = vec![];
    for s in split_txt(rd).unwrap_or_default() {
        if s.is_empty() {
            continue;
        }
        let (k, v) = match s.iter().position(|&b| b == b'=') {
            Some(i) => (s[..i].to_vec(), Some(s[i + 1..].to_vec())),
            None => (s.clone(), None),
        };
        let Ok(k) = String::from_utf8(k) else { continue };
        if !out.iter().any(|(kk, _)| kk.eq_ignore_ascii_case(&k)) {
            out.push((k, v));
        }
    }
    out
}

impl Scn {
    fn deliver(&self, run: &mut Run, ifi: u32, recs: Vec<Record>) {
        let now = run.w.now;
        run.store.add(now, ifi, &recs);
        let src = if ifi == IF0 { PEER0 } else { PEER1 };
        run.w.deliver(0, ifi, src, build(&response(recs)));
    }

    /// Context tag: was the instance's PTR first seen as a goodbye (TTL 0) less than a second
    /// before a copy with a real TTL arrived?
    fn ptr_tag(store: &Store, inst: &Name) -> &'static str {
        let ptrs: Vec<&Delivered> = store.v.iter().filter(|d| d.rec.rtype == T_PTR && matches!(&d.rec.rd, RD::Ptr(t) if t == inst)).collect();
        for (k, d) in ptrs.iter().enumerate() {
            if d.rec.ttl > 1 {
                if let Some(prev) = k.checked_sub(1).map(|p| ptrs[p]) {
                    if prev.rec.ttl <= 1 && d.t < prev.t + 1000 {
                        return "ptr-revived-within-1s-of-a-goodbye";
                    }
                }
            }
        }
        "plain"
    }

    /// C03: one ServiceResolved event against the reference store.
    fn check_resolved(&self, run: &mut Run, t: u64, r: &Resolved) {
        run.counters.push(("resolved_events_checked", 1));
        let inst: Name = match run.insts.keys().find(|k| dotted(k) == r.fullname) {
            Some(k) => k.clone(),
            None => {
                run.viols.push(viol("C03|resolved-for-an-instance-never-advertised", format!("{r:?}")));
                return;
            }
        };
        let mut view = inst_view(&run.store, &ty(), &inst, t, 0);
        // a record withdrawn by a goodbye must not be used, even during its one second of grace
        view.srvs.retain(|r| r.last_ttl != 0);
        view.addrs.retain(|r| r.last_ttl != 0);
        view.txts.retain(|r| r.last_ttl != 0);
        let ctx = |run: &Run| format!("at +{}: {:?}; delivered {:?}", t - T0, r, run.store.v.iter().map(|d| (d.t - T0, d.ifi, d.rec.summary())).collect::<Vec<_>>());
        if r.host.is_empty() || r.addrs.is_empty() {
            run.viols.push(viol("C03|resolved-without-host-or-address", ctx(run)));
            return;
        }
        let srv_ok = view.srvs.iter().any(|s| matches!(&s.rec.rd, RD::Srv { port, target, .. } if *port == r.port && dotted(target).eq_ignore_ascii_case(&r.host)));
        if !srv_ok {
            let any_past = run.store.v.iter().any(|d| d.rec.name == inst && matches!(&d.rec.rd, RD::Srv { port, .. } if *port == r.port));
            let why = if any_past { "srv-no-longer-live" } else { "srv-never-received" };
            run.viols.push(viol(format!("C03|host-port-not-from-a-live-SRV|{why}"), ctx(run)));
        }
        for a in &r.addrs {
            let copies: Vec<&LiveRec> = view
                .addrs
                .iter()
                .filter(|x| match &x.rec.rd {
                    RD::A(b) => ip4(*b) == a.ip,
                    RD::Aaaa(b) => std::net::IpAddr::V6((*b).into()) == a.ip,
                    _ => false,
                })
                .filter(|x| dotted(&x.rec.name).eq_ignore_ascii_case(&r.host))
                .collect();
            if copies.is_empty() {
                let any_past = run.store.v.iter().any(|d| matches!(&d.rec.rd, RD::A(b) if ip4(*b) == a.ip));
                let why = if any_past { "address-no-longer-live" } else { "address-never-received" };
                run.viols.push(viol(format!("C03|address-not-from-a-live-record|{why}"), format!("{} {}", a.ip, ctx(run))));
                continue;
            }
            for (_, idx) in &a.intfs {
                if !copies.iter().any(|c| c.ifi == *idx) {
                    run.viols.push(viol("C03|address-tagged-with-interface-it-was-not-received-on", format!("{} tagged {} {}", a.ip, idx, ctx(run))));
                }
            }
            // ... and with every interface it is alive on (copies in their last second are left open)
            let healthy_addrs = inst_view(&run.store, &ty(), &inst, t, 1000).addrs;
            for c in copies.iter().filter(|c| healthy_addrs.iter().any(|h| h.rec == c.rec && h.ifi == c.ifi && h.last_ttl != 0)) {
                run.counters.push(("interface_tags_checked_complete", 1));
                if !a.intfs.iter().any(|(_, idx)| *idx == c.ifi) {
                    run.viols.push(viol("C03|address-not-tagged-with-an-interface-it-is-alive-on", format!("{} tagged {:?}, alive on {} too; {}", a.ip, a.intfs, c.ifi, ctx(run))));
                }
            }
        }
        // properties shown must come from a live TXT; showing none is accepted when no TXT has
        // more than a second left (withdrawn by a goodbye / last second of its TTL)
        let healthy = inst_view(&run.store, &ty(), &inst, t, 1000);
        let txt_ok = view.txts.iter().any(|x| matches!(&x.rec.rd, RD::Txt(b) if parse_txt(b) == r.txt)) || (r.txt.is_empty() && healthy.txts.is_empty());
        if !txt_ok {
            run.viols.push(viol("C03|txt-not-from-a-live-TXT-record", ctx(run)));
        }
    }

    /// Processes channel events that appeared since the last call, then the end-of-step oracles.
    fn observe(&self, run: &mut Run, label: &str, delivered: &[Record]) {
        let now = run.w.now;
        let evs: Vec<(usize, u64, BEv)> = run
            .w
            .log
            .iter()
            .enumerate()
            .skip(run.seen)
            .filter_map(|(ix, e)| match &e.kind {
                Kind::B(c, ev) if *c == run.ch => Some((ix, e.t, ev.clone())),
                _ => None,
            })
            .collect();
        run.seen = run.w.log.len();
        let prev = run.last_obs;
        // C05 (ii): did an instance that is reported lose completeness in (prev, now]?
        let mut lapses: Vec<(Name, u64, String)> = vec![];
        if self.prop == Prop::C05 {
            for (inst, st) in run.insts.clone() {
                if !st.reported {
                    // an instance the client only knows by ServiceFound is withdrawn when its PTR goes
                    if st.found_only {
                        let recs = run.store.records_at(now);
                        let mut cands: Vec<u64> = recs.iter().map(|r| r.expiry).filter(|x| *x > prev && *x <= now).collect();
                        cands.sort_unstable();
                        cands.dedup();
                        for x in cands {
                            let before = inst_view(&run.store, &ty(), &inst, x - 1, 0);
                            let after = inst_view(&run.store, &ty(), &inst, x, 0);
                            if !before.ptrs.is_empty() && after.ptrs.is_empty() {
                                lapses.push((inst.clone(), x, "PTR-of-an-instance-found-but-never-resolved".to_string()));
                                break;
                            }
                        }
                    }
                    continue;
                }
                let recs = run.store.records_at(now);
                let mut cands: Vec<u64> = recs.iter().map(|r| r.expiry).filter(|x| *x > prev && *x <= now).collect();
                cands.sort_unstable();
                cands.dedup();
                for x in cands {
                    let before = inst_view(&run.store, &ty(), &inst, x - 1, 0);
                    let after = inst_view(&run.store, &ty(), &inst, x, 0);
                    // don't-care band: if some other needed record was already within its last
                    // second, the implementation may report the removal when that one expires
                    let mut others_healthy = true;
                    let wide = inst_view(&run.store, &ty(), &inst, x, 1000);
                    if !after.ptrs.is_empty() && wide.ptrs.is_empty() {
                        others_healthy = false;
                    }
                    if !after.srvs.is_empty() && wide.srvs.is_empty() {
                        others_healthy = false;
                    }
                    if !after.addrs.is_empty() && wide.addrs.is_empty() {
                        others_healthy = false;
                    }
                    if before.complete() && !after.complete() && !others_healthy {
                        run.counters.push(("lapses_in_dont_care_band", 1));
                        break;
                    }
                    if before.complete() && !after.complete() {
                        let cause = if after.ptrs.is_empty() { "PTR" } else if after.srvs.is_empty() { "SRV" } else { "address" };
                        lapses.push((inst.clone(), x, cause.to_string()));
                        break;
                    }
                }
            }
        }
        for (_ix, t, ev) in &evs {
            match ev {
                BEv::Found(_, full) => {
                    if let Some((_, st)) = run.insts.iter_mut().find(|(k, _)| dotted(k) == *full) {
                        st.found = true;
                        if !st.reported {
                            st.found_only = true;
                        }
                    }
                }
                BEv::Resolved(r) => {
                    if self.prop == Prop::C03 {
                        self.check_resolved(run, *t, r);
                    }
                    let key = run.insts.keys().find(|k| dotted(k) == r.fullname).cloned();
                    if let Some(k) = key {
                        let st = run.insts.get_mut(&k).unwrap();
                        if self.prop == Prop::C05 {
                            if let Some(tr) = st.removed_at {
                                let fresh = run.store.v.iter().any(|d| d.t >= tr && d.t <= *t);
                                if !fresh {
                                    run.viols.push(viol("C05|resolved-again-after-removal-without-new-records", format!("{} removed +{} resolved +{}", r.fullname, tr - T0, t - T0)));
                                }
                            }
                        }
                        if self.prop == Prop::C04 && !st.found {
                            let tag = Self::ptr_tag(&run.store, &k);
                            run.viols.push(viol(format!("C04|ServiceResolved-before-ServiceFound|{tag}"), r.fullname.clone()));
                        }
                        st.reported = true;
                        st.found_only = false;
                        st.removed_at = None;
                    }
                }
                BEv::Removed(_, full) => {
                    let key = run.insts.keys().find(|k| dotted(k) == *full).cloned();
                    if let Some(k) = key {
                        if self.prop == Prop::C05 {
                            run.counters.push(("removed_events_checked", 1));
                            // (i) never while PTR, SRV and an address all have more than 1 s left
                            let v = inst_view(&run.store, &ty(), &k, *t, 1000);
                            if v.complete() {
                                run.viols.push(viol(
                                    "C05|ServiceRemoved-while-instance-is-complete",
                                    format!("{} at +{} after {label}; delivered {:?}; verifies {:?}", full, t - T0, run.store.v.iter().map(|d| (d.t - T0, d.ifi, d.rec.summary())).collect::<Vec<_>>(), run.store.verifies.iter().map(|v| (v.0 - T0, v.2)).collect::<Vec<_>>()),
                                ));
                            }
                        }
                        let st = run.insts.get_mut(&k).unwrap();
                        st.reported = false;
                        st.found_only = false;
                        st.removed_at = Some(*t);
                    }
                }
                _ => {}
            }
        }
        // C05 (ii) continued: each lapse needs a ServiceRemoved at that moment
        for (inst, x, cause) in lapses {
            run.counters.push(("lapses_checked", 1));
            let full = dotted(&inst);
            let ok = evs.iter().any(|(_, t, e)| matches!(e, BEv::Removed(_, f) if *f == full) && *t + 1000 >= x && *t <= x + 1);
            if !ok {
                let how = run.store.v.iter().rev().find(|d| d.rec.ttl == 0 && d.t + 1000 == x).map(|_| "goodbye").or_else(|| run.store.verifies.iter().find(|v| v.0 + v.2 == x).map(|_| "verify-timeout")).unwrap_or("ttl-or-flush");
                run.viols.push(viol(
                    format!("C05|no-ServiceRemoved-when-completeness-lapsed|{cause}|{how}"),
                    format!("{} lost its last live {} at +{} ({label}); ServiceRemoved events in this step: {:?}; delivered {:?}", full, cause, x - T0, evs.iter().filter(|e| matches!(e.2, BEv::Removed(..))).map(|e| e.1 - T0).collect::<Vec<_>>(), run.store.v.iter().map(|d| (d.t - T0, d.ifi, d.rec.summary())).collect::<Vec<_>>()),
                ));
                // keep the bookkeeping in step with the statement
                if let Some(st) = run.insts.get_mut(&inst) {
                    st.reported = false;
                    st.found_only = false;
                }
            }
        }
        // C04: a delivery that brought something new and left the instance complete must resolve it now
        if self.prop == Prop::C04 && !delivered.is_empty() {
            for inst in run.insts.keys().cloned().collect::<Vec<_>>() {
                let v = inst_view(&run.store, &ty(), &inst, now, 1000);
                if !(v.complete() && !v.txts.is_empty()) {
                    continue;
                }
                // relevant and new: identity was not live just before this delivery
                let before = run.store.clone_without_last(delivered.len());
                let old_live = before.live_at(now);
                let relevant = |r: &Record| -> bool {
                    r.name == inst || matches!(&r.rd, RD::Ptr(t) if *t == inst) || v.srvs.iter().any(|s| matches!(&s.rec.rd, RD::Srv { target, .. } if name_eq_ci(target, &r.name)))
                };
                let newly: Vec<&Record> = delivered.iter().filter(|r| r.ttl > 1 && relevant(r) && !old_live.iter().any(|o| o.rec.name == r.name && o.rec.rtype == r.rtype && o.rec.flush == r.flush && o.rec.rd == r.rd)).collect();
                if newly.is_empty() {
                    continue;
                }
                run.counters.push(("completeness_antecedents", 1));
                let full = dotted(&inst);
                let st = run.insts.get(&inst).cloned().unwrap_or_default();
                let resolved_now = evs.iter().any(|(_, _, e)| matches!(e, BEv::Resolved(r) if r.fullname == full));
                if !st.found || !resolved_now {
                    let what = if !st.found { "ServiceFound" } else { "ServiceResolved" };
                    let tag = Self::ptr_tag(&run.store, &inst);
                    run.viols.push(viol(
                        format!("C04|complete-instance-not-reported|no-{what}|{tag}"),
                        format!("{} complete after {label} at +{} (new: {:?}); events this step {:?}; delivered {:?}", full, now - T0, newly.iter().map(|r| r.summary()).collect::<Vec<_>>(), evs.iter().map(|e| format!("{:?}", e.2)).collect::<Vec<_>>(), run.store.v.iter().map(|d| (d.t - T0, d.ifi, d.rec.summary())).collect::<Vec<_>>()),
                    ));
                }
            }
        }
        run.last_obs = now;
    }
}

impl Store {
    pub fn clone_without_last(&self, k: usize) -> Store {
        let mut s = self.clone();
        let n = s.v.len().saturating_sub(k);
        s.v.truncate(n);
        s
    }
}

impl Scenario for Scn {
    type Run = Run;
    fn name(&self) -> String {
        if self.ops.contains(&Op::BrowseAgain) {
            format!("browse-histories-{:?}-with-a-second-browse", self.prop)
        } else if self.host == HOST_PLAIN {
            format!("browse-histories-{:?}", self.prop)
        } else {
            format!("browse-histories-{:?}-host-with-capitals", self.prop)
        }
    }
    fn rule(&self) -> String {
        format!("all sequences over {} events: announcements of two instances sharing a host (TTL 2/10/120), updates with new port / TXT / address (cache-flush), additional address, address learned on a second interface, the first address heard on the second interface too, goodbyes for everything / address / address inside another type's goodbye / SRV / PTR, PTR only, verify(2.7 s), idle 0.4 / 1.1 / 5 s; oracle after every step against the reference record store", self.ops.len())
    }
    fn setup(&self) -> Run {
        let mut w = World::one(lay_two());
        w.ds[0].h.set_ip_check_interval(0).unwrap();
        w.poke(0);
        let rx = w.ds[0].h.browse("_t._tcp.local.").unwrap();
        let ch = w.add_browse(0, rx);
        w.poke(0);
        w.advance(20);
        let mut insts = BTreeMap::new();
        insts.insert(inst_i(self.host).inst, InstState::default());
        insts.insert(inst_j(self.host).inst, InstState::default());
        let seen = w.log.len();
        let last_obs = w.now;
        Run { w, ch, store: Store::default(), seen, last_obs, insts, step_from: 0, viols: vec![], counters: vec![] }
    }
    fn menu(&self, _run: &Run) -> Vec<String> {
        self.ops.iter().map(|o| format!("{o:?}")).collect()
    }
    fn apply(&self, run: &mut Run, choice: usize) {
        let op = self.ops[choice];
        let i = inst_i(self.host);
        let j = inst_j(self.host);
        run.step_from = run.w.log.len();
        let mut delivered: Vec<Record> = vec![];
        let mut send = |s: &Scn, run: &mut Run, ifi: u32, recs: Vec<Record>| {
            delivered = recs.clone();
            s.deliver(run, ifi, recs);
        };
        match op {
            Op::AnnI2 => send(self, run, IF0, i.all(2)),
            Op::AnnI10 => send(self, run, IF0, i.all(10)),
            Op::AnnI120 => send(self, run, IF0, i.all(120)),
            Op::AnnJ120 => send(self, run, IF0, j.all(120)),
            Op::SrvNewPort => send(self, run, IF0, vec![srv(&i.inst, &i.host, 8080, 120)]),
            Op::TxtNew => send(self, run, IF0, vec![txt(&i.inst, &txt_rdata(&[(b"k", Some(b"w"))]), 120)]),
            Op::ANewFlush => send(self, run, IF0, vec![a(&i.host, [10, 0, 0, 10], 120)]),
            Op::A2NoFlush => {
                let mut r = a(&i.host, [10, 0, 0, 11], 120);
                r.flush = false;
                send(self, run, IF0, vec![r]);
            }
            Op::AOnIf1 => send(self, run, IF1, vec![a(&i.host, [10, 0, 1, 9], 120)]),
            // the host's first address heard on the second interface as well (multi-homed client, reflector)
            Op::SameAOnIf1 => send(self, run, IF1, vec![a(&i.host, [10, 0, 0, 9], 120)]),
            Op::GoodbyeAllI => send(self, run, IF0, i.all(0)),
            Op::GoodbyeA => send(self, run, IF0, vec![a(&i.host, [10, 0, 0, 9], 0)]),
            // the address withdrawn in the goodbye of a service of another (unbrowsed) type on the same host
            Op::GoodbyeAInForeign => send(self, run, IF0, vec![ptr(&n("_z._udp.local"), &n("other._z._udp.local"), 0), a(&i.host, [10, 0, 0, 9], 0)]),
            Op::GoodbyeSrvI => send(self, run, IF0, vec![i.srv(0)]),
            Op::GoodbyePtrI => send(self, run, IF0, vec![i.ptr(0)]),
            Op::PtrOnlyI => send(self, run, IF0, vec![i.ptr(10)]),
            Op::VerifyI => {
                let now = run.w.now;
                let pos = run.store.v.len();
                // a timeout that is not a whole number of seconds ("any timeout")
                run.store.verifies.push((now, i.inst.clone(), 2700, pos));
                run.w.ds[0].h.verify(i.fullname(), Duration::from_millis(2700)).unwrap();
                run.w.poke(0);
            }
            Op::BrowseAgain => {
                let lix = run.w.log.len();
                let rx = run.w.ds[0].h.browse("_t._tcp.local.").unwrap();
                run.ch = run.w.add_browse(0, rx);
                run.w.poke(0);
                // the new listener starts from nothing: what it is told comes from the cache
                run.seen = lix;
                for st in run.insts.values_mut() {
                    *st = InstState::default();
                }
            }
            Op::Idle400 => run.w.advance(400),
            Op::Idle1100 => run.w.advance(1100),
            Op::Idle5s => run.w.advance(5000),
        }
        self.observe(run, &format!("{op:?}"), &delivered);
    }
    fn digest(&self, run: &mut Run) -> u128 {
        let now = run.w.now;
        let mut s = run.w.dump(0).unwrap_or_default();
        // the oracle's own state: what is live by the reference store (relative), what was reported
        for r in run.store.records_at(now) {
            if r.expiry + 1500 > now {
                s.push_str(&format!("ref {} {} since {} exp {}\n", r.rec.summary(), r.ifi, now - r.since, r.expiry as i128 - now as i128));
            }
        }
        for v in &run.store.verifies {
            if v.0 + v.2 + 1500 > now {
                s.push_str(&format!("verify {}\n", now - v.0));
            }
        }
        s.push_str(&format!("{:?}", run.insts.values().map(|i| (i.found, i.reported, i.removed_at.map(|t| (now - t).min(100_000)))).collect::<Vec<_>>()));
        fnv128(s.as_bytes())
    }
    fn finish(&self, run: &mut Run) {
        let end = run.w.now + self.horizon_ms;
        while run.w.now < end {
            let step = if end - run.w.now > 20_000 { 5000 } else { 500 };
            run.w.advance(step.min(end - run.w.now));
            self.observe(run, "horizon", &[]);
        }
        if let Some(f) = daemon_fault(&run.w, 0) {
            run.viols.push(viol(format!("{:?}|daemon-fault|{}", self.prop, panic_sig(&f)), f));
        }
    }
    fn result(&self, mut run: Run) -> CaseResult {
        let mut r = CaseResult {
            viols: std::mem::take(&mut run.viols),
            transitions: run.w.steps,
            outcome: outcome_hash(&run.w.log),
            nontrivial: !run.store.v.is_empty(),
            ..Default::default()
        };
        for (k, v) in run.counters.drain(..) {
            r.count(k, v);
        }
        r
    }
}
