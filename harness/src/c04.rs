//! C04 — everything advertised for a browsed type is found and resolved (Engine S).
use crate::browse::{self, Prop};
use crate::fw::*;
use crate::indep::*;
use crate::scn::*;
use crate::sim::*;
use std::time::Duration;

/// All ordered set-partitions of {0,1,2,3} (75 of them): a list of blocks, each a list of items.
fn ordered_partitions() -> Vec<Vec<Vec<usize>>> {
    fn rec(items: &[usize], acc: &mut Vec<Vec<usize>>, out: &mut Vec<Vec<Vec<usize>>>) {
        if items.is_empty() {
            out.push(acc.clone());
            return;
        }
        // choose a non-empty subset of the remaining items that contains the smallest... no:
        // ordered partitions: choose any non-empty subset as the next block
        let n = items.len();
        for mask in 1u32..(1 << n) {
            let block: Vec<usize> = (0..n).filter(|i| mask & (1 << i) != 0).map(|i| items[i]).collect();
            let rest: Vec<usize> = (0..n).filter(|i| mask & (1 << i) == 0).map(|i| items[i]).collect();
            acc.push(block);
            rec(&rest, acc, out);
            acc.pop();
        }
    }
    let mut out = vec![];
    rec(&[0, 1, 2, 3], &mut vec![], &mut out);
    out
}

/// Instance name shapes: first label of the instance (as bytes on the wire).
fn shapes() -> Vec<(&'static str, Vec<u8>)> {
    vec![
        ("plain", b"printer".to_vec()),
        ("dotted-label", b"My.Printer".to_vec()),
        ("backslash", b"a\\b".to_vec()),
        ("non-ascii", "Büro".as_bytes().to_vec()),
        ("63-bytes", vec![b'x'; 63]),
        ("space", b"My Printer".to_vec()),
    ]
}

fn make_inst(shape: usize, subtype: bool) -> Inst {
    let ty = n("_t._tcp.local");
    let mut inst = vec![shapes()[shape].1.clone()];
    inst.extend(ty.clone());
    Inst {
        ty,
        sub: if subtype { Some(n("_s._sub._t._tcp.local")) } else { None },
        inst,
        host: n("hostx.local"),
        port: 80,
        txt: txt_rdata(&[(b"k", Some(b"v"))]),
        v4: vec![[10, 0, 0, 9]],
        v6: vec![],
    }
}

fn item(i: &Inst, k: usize, subtype: bool) -> Record {
    match k {
        0 => {
            if subtype {
                ptr(i.sub.as_ref().unwrap(), &i.inst, 120)
            } else {
                i.ptr(120)
            }
        }
        1 => i.srv(120),
        2 => i.txt(120),
        _ => i.addrs(120).remove(0),
    }
}

fn foreign_records() -> Vec<Record> {
    let f = n("other._z._udp.local");
    vec![srv(&f, &n("elsewhere.local"), 9, 120), a(&n("elsewhere.local"), [10, 0, 0, 77], 120)]
}

fn run_partition(x: &[u64], parts: &[Vec<Vec<usize>>], trace: bool) -> CaseResult {
    // x = [partition, placement, dup, foreign, gap, shape, subtype]
    let mut res = CaseResult::default();
    let subtype = x[6] == 1;
    let i = make_inst(x[5] as usize, subtype);
    let mut w = World::one(lay_v4());
    w.trace = trace;
    w.ds[0].h.set_ip_check_interval(0).unwrap();
    w.poke(0);
    let browse_ty = if subtype { "_s._sub._t._tcp.local." } else { "_t._tcp.local." };
    let rx = w.ds[0].h.browse(browse_ty).unwrap();
    let ch = w.add_browse(0, rx);
    w.poke(0);
    w.advance(50);
    let blocks = &parts[x[0] as usize];
    let mut packets: Vec<Vec<u8>> = vec![];
    for (bi, b) in blocks.iter().enumerate() {
        let recs: Vec<Record> = b.iter().map(|k| item(&i, *k, subtype)).collect();
        let mut m = response(vec![]);
        for r in recs {
            // placement 1: everything except PTR goes to the additional section (if the packet
            // has a PTR to be the answer), as a responder answering a PTR question does
            if x[1] == 1 && r.rtype != T_PTR && b.contains(&0) {
                m.additionals.push(r);
            } else {
                m.answers.push(r);
            }
        }
        match x[3] {
            1 if bi == 0 => m.answers.extend(foreign_records()),
            3 if bi == 0 && !b.contains(&0) => {
                // a PTR of a type nobody here browses rides along in a packet that carries ours
                m.answers.push(ptr(&n("_z._udp.local"), &n("other._z._udp.local"), 120));
            }
            _ => {}
        }
        packets.push(build(&m));
        if x[3] == 2 && bi == 0 {
            // a packet that is solely an answer to someone else's browse of another type
            packets.push(build(&response(vec![ptr(&n("_z._udp.local"), &n("other._z._udp.local"), 120)])));
        }
    }
    match x[2] {
        1 => {
            let p = packets[0].clone();
            packets.insert(1, p);
        }
        2 => {
            let p = packets.last().unwrap().clone();
            packets.push(p);
        }
        _ => {}
    }
    let np = packets.len();
    for (k, p) in packets.into_iter().enumerate() {
        match x[4] {
            0 => {
                // same iteration: queue everything, one poke at the end
                w.queue(0, IF0, PEER0, p);
                if k + 1 == np {
                    w.poke(0);
                }
            }
            1 => {
                w.deliver(0, IF0, PEER0, p);
            }
            _ => {
                w.deliver(0, IF0, PEER0, p);
                if k + 1 < np {
                    w.advance(300);
                }
            }
        }
    }
    let done_at = w.now;
    let evs = bevs(&w, 0, ch, 0);
    let full = i.fullname();
    let found_pos = evs.iter().position(|(_, e)| matches!(e, BEv::Found(_, f) if *f == full));
    let res_pos = evs.iter().position(|(_, e)| matches!(e, BEv::Resolved(r) if r.fullname == full));
    let last_res = evs.iter().rposition(|(_, e)| matches!(e, BEv::Resolved(r) if r.fullname == full));
    let ctx = || format!("events {:?}", evs.iter().map(|(t, e)| (t - T0, format!("{e:?}"))).collect::<Vec<_>>());
    res.count("instances_made_complete", 1);
    let foreign_tag = ["none", "foreign-srv-a-inside", "foreign-ptr-packet-between", "foreign-ptr-inside-packet-without-our-ptr"][x[3] as usize];
    match (found_pos, res_pos) {
        (Some(f), Some(r)) if f < r => {
            res.count("found_then_resolved", 1);
            // content: labels as registered (the crate's dotted join), right host/port/address
            let _ = r;
            if let BEv::Resolved(rs) = &evs[last_res.unwrap()].1 {
                if rs.port != 80 || !rs.host.eq_ignore_ascii_case("hostx.local.") || !rs.addrs.iter().any(|a| a.ip == ip4([10, 0, 0, 9])) || rs.txt != vec![("k".to_string(), Some(b"v".to_vec()))] {
                    res.viols.push(viol(format!("C04|resolved-with-wrong-content|{foreign_tag}"), format!("{rs:?}")));
                }
                if subtype && rs.sub.as_deref() != Some("_s._sub._t._tcp.local.") {
                    res.viols.push(viol("C04|resolved-without-the-browsed-subtype", format!("{rs:?}")));
                }
            }
            if evs[last_res.unwrap()].0 > done_at {
                res.viols.push(viol("C04|resolved-later-than-the-next-scheduling-step", ctx()));
            }
        }
        (Some(_), Some(_)) => res.viols.push(viol("C04|ServiceResolved-before-ServiceFound", ctx())),
        (None, _) => res.viols.push(viol(format!("C04|complete-instance-not-reported|no-ServiceFound|{foreign_tag}"), ctx())),
        (_, None) => res.viols.push(viol(format!("C04|complete-instance-not-reported|no-ServiceResolved|{foreign_tag}"), ctx())),
    }
    if let Some(f) = daemon_fault(&w, 0) {
        res.viols.push(viol(format!("C04|daemon-fault|{}", panic_sig(&f)), f));
    }
    res.nontrivial = true;
    res.transitions = w.steps;
    res.outcome = outcome_hash(&w.log);
    res.states = final_states(&w);
    res
}

/// One record per packet in a given order, one packet lost; afterwards a scripted responder
/// answers exactly the question names the daemon asks (label-exact, like a real responder).
fn run_loss(order: &[usize], lost: usize, shape: usize, deaf: u64, trace: bool) -> CaseResult {
    run_loss_rb(order, lost, shape, deaf, 0, trace)
}

/// `rebrowse`: 0, or the application browses the type again that many ms after the packets arrived
/// (inside the window of the daemon's follow-up questions); the newest channel is the one judged.
fn run_loss_rb(order: &[usize], lost: usize, shape: usize, deaf: u64, rebrowse: u64, trace: bool) -> CaseResult {
    // deaf: the responder lets the first `deaf` rounds of questions about a name go unanswered (the daemon
    // asks up to three times)
    let mut res = CaseResult::default();
    let i = make_inst(shape, false);
    let mut w = World::one(lay_v4());
    w.trace = trace;
    w.ds[0].h.set_ip_check_interval(0).unwrap();
    w.poke(0);
    let rx = w.ds[0].h.browse("_t._tcp.local.").unwrap();
    let ch = w.add_browse(0, rx);
    w.poke(0);
    w.advance(50);
    for (k, it) in order.iter().enumerate() {
        if k == lost {
            continue;
        }
        w.deliver(0, IF0, PEER0, build(&response(vec![item(&i, *it, false)])));
    }
    let t_start = w.now;
    // responder loop
    let owned: Vec<Record> = i.all(120);
    let mut scanned = w.log.len();
    let mut ch = ch;
    if rebrowse > 0 {
        w.run_until(t_start + rebrowse);
        let rx = w.ds[0].h.browse("_t._tcp.local.").unwrap();
        ch = w.add_browse(0, rx);
        w.poke(0);
        res.count("browsed_again_during_the_follow_ups", 1);
    }
    let mut followups: Vec<(u64, Msg)> = vec![];
    let mut asked_at: std::collections::BTreeMap<String, Vec<u64>> = std::collections::BTreeMap::new();
    let end = w.now + 6000;
    loop {
        // answer the queries sent since the last scan
        let mut answers: Vec<Vec<Record>> = vec![];
        for e in &w.log[scanned..] {
            if let Kind::Out(o) = &e.kind {
                if let Ok(m) = &o.msg {
                    if !m.is_response() {
                        followups.push((e.t, m.clone()));
                        let mut recs = vec![];
                        for q in &m.questions {
                            if q.qtype != T_PTR {
                                let times = asked_at.entry(dotted(&lower(&q.name))).or_default();
                                if !times.contains(&e.t) {
                                    times.push(e.t);
                                }
                                if times.len() as u64 <= deaf {
                                    continue; // this round is lost
                                }
                            }
                            for r in &owned {
                                // a responder matches names case-insensitively, label by label
                                if name_eq_ci(&r.name, &q.name) && (q.qtype == T_ANY || q.qtype == r.rtype) && !recs.contains(r) {
                                    recs.push(r.clone());
                                }
                            }
                        }
                        if !recs.is_empty() {
                            answers.push(recs);
                        }
                    }
                }
            }
        }
        scanned = w.log.len();
        if !answers.is_empty() {
            for recs in answers {
                w.deliver(0, IF0, PEER0, build(&response(recs)));
            }
            continue;
        }
        if !w.wake_next(end) {
            break;
        }
    }
    let evs = bevs(&w, 0, ch, 0);
    let full = i.fullname();
    let resolved_at = evs.iter().find(|(_, e)| matches!(e, BEv::Resolved(r) if r.fullname == full)).map(|x| x.0);
    let ptr_arrived = lost != order.iter().position(|x| *x == 0).unwrap();
    res.count("loss_histories", 1);
    let shape_tag = shapes()[shape].0;
    if ptr_arrived {
        // the daemon itself must ask for what is missing: (instance, ANY) within 0.5 s, up to three
        // times 0.5 s apart, then A/AAAA for the SRV target; with the labels it received
        let inst_q: Vec<&(u64, Msg)> = followups.iter().filter(|(_, m)| m.questions.iter().any(|q| q.name.first() == i.inst.first() || q.name.len() > 4 && q.qtype != T_PTR)).collect();
        let wrong_labels = followups.iter().any(|(_, m)| {
            m.questions.iter().any(|q| q.qtype != T_PTR && !name_eq_ci(&q.name, &i.inst) && !name_eq_ci(&q.name, &i.host) && dotted(&q.name).eq_ignore_ascii_case(&dotted(&i.inst)))
        });
        if wrong_labels {
            res.viols.push(viol(
                format!("C04|follow-up-question-labels-differ-from-the-labels-received|{shape_tag}"),
                format!("PTR target labels {} but asked {:?}", show_name(&i.inst), followups.iter().map(|(t, m)| (t - T0, m.summary())).collect::<Vec<_>>()),
            ));
        }
        match resolved_at {
            Some(_) => res.count("resolved_after_loss", 1),
            None => {
                if !wrong_labels {
                    res.viols.push(viol(
                        format!("C04|not-resolved-after-a-lost-packet-although-follow-ups-were-answered|{shape_tag}"),
                        format!("order {order:?} lost {lost}, first {deaf} rounds of questions unanswered; queries {:?}; events {:?}", followups.iter().map(|(t, m)| (t - T0, m.summary())).collect::<Vec<_>>(), evs.iter().map(|(t, e)| (t - T0, format!("{e:?}"))).collect::<Vec<_>>()),
                    ));
                }
            }
        }
        // follow-up timing when something was missing
        let missing_srv = lost == order.iter().position(|x| *x == 1).unwrap();
        if missing_srv && !wrong_labels {
            let first = inst_q.iter().map(|x| x.0).filter(|t| *t > t_start).min();
            if first.map_or(true, |t| t > t_start + 500) {
                res.viols.push(viol("C04|no-follow-up-query-within-half-a-second", format!("records done at +{}, instance queries at {:?}", t_start - T0, inst_q.iter().map(|x| x.0 - T0).collect::<Vec<_>>())));
            } else {
                res.count("followup_within_500ms", 1);
            }
        }
    }
    if let Some(f) = daemon_fault(&w, 0) {
        res.viols.push(viol(format!("C04|daemon-fault|{}", panic_sig(&f)), f));
    }
    res.nontrivial = true;
    res.transitions = w.steps;
    res.outcome = outcome_hash(&w.log);
    res.states = final_states(&w);
    res
}

fn permutations4() -> Vec<Vec<usize>> {
    let mut out = vec![];
    for a in 0..4 {
        for b in 0..4 {
            for c in 0..4 {
                for d in 0..4 {
                    let v = vec![a, b, c, d];
                    let mut s = v.clone();
                    s.sort_unstable();
                    if s == vec![0, 1, 2, 3] {
                        out.push(v);
                    }
                }
            }
        }
    }
    out
}

// ---------------------------------------------------------------- several browses open at once

/// Browses open at once (every non-empty subset of {type T, subtype S of T, other type U}) x three
/// instances (I1: type T with subtype S; I2: type T, same host as I1; I3: type U, same host) x
/// packetisation x gap x when the browses start.  Every open channel must get ServiceFound then
/// ServiceResolved for each instance that belongs to what it browses.
fn run_concurrent(x: &[u64], trace: bool) -> CaseResult {
    // x = [browse subset 1..=7, packetisation 0..4, gap 0..2, late-browse 0..2]
    let mut res = CaseResult::default();
    let mut w = World::one(lay_v4());
    w.trace = trace;
    w.ds[0].h.set_ip_check_interval(0).unwrap();
    w.poke(0);
    let tys = ["_t._tcp.local.", "_s._sub._t._tcp.local.", "_u._udp.local."];
    let mk = |label: &str, ty: &str, sub: Option<&str>, port: u16| -> Inst {
        let tyn = n(ty);
        let mut inst = vec![label.as_bytes().to_vec()];
        inst.extend(tyn.clone());
        Inst { ty: tyn, sub: sub.map(n), inst, host: n("hostx.local"), port, txt: txt_rdata(&[(b"k", Some(b"v"))]), v4: vec![[10, 0, 0, 9]], v6: vec![] }
    };
    let i1 = mk("i1", "_t._tcp.local", Some("_s._sub._t._tcp.local"), 81);
    let i2 = mk("i2", "_t._tcp.local", None, 82);
    let i3 = mk("i3", "_u._udp.local", None, 83);
    // which instance belongs to which browse
    let belongs: [[bool; 3]; 3] = [[true, true, false], [true, false, false], [false, false, true]];
    let insts = [&i1, &i2, &i3];
    let open: Vec<usize> = (0..3).filter(|b| x[0] & (1 << b) != 0).collect();
    let mut chans: Vec<(usize, usize)> = vec![];
    let start_browses = |w: &mut World, chans: &mut Vec<(usize, usize)>, which: &[usize]| {
        for &b in which {
            let rx = w.ds[0].h.browse(tys[b]).unwrap();
            let ch = w.add_browse(0, rx);
            chans.push((b, ch));
        }
        w.poke(0);
    };
    // late-browse 0: all browses before the records; 1: the last browse of the subset starts after
    // the records (served from the cache)
    let (early, late): (Vec<usize>, Vec<usize>) = if x[3] == 1 && open.len() > 1 { (open[..open.len() - 1].to_vec(), open[open.len() - 1..].to_vec()) } else { (open.clone(), vec![]) };
    start_browses(&mut w, &mut chans, &early);
    w.advance(50);
    // records: PTRs (type and subtype), SRV, TXT per instance, one shared address
    let mut per_inst: Vec<Vec<Record>> = vec![];
    for i in insts {
        let mut v = vec![i.ptr(120)];
        if let Some(sub) = &i.sub {
            v.push(ptr(sub, &i.inst, 120));
        }
        v.push(i.srv(120));
        v.push(i.txt(120));
        per_inst.push(v);
    }
    let addr = i1.addrs(120).remove(0);
    let packets: Vec<Vec<Record>> = match x[1] {
        0 => {
            let mut all: Vec<Record> = per_inst.concat();
            all.push(addr);
            vec![all]
        }
        1 => {
            // each instance's packet carries the shared host's address (a packet that holds only
            // another type's instance may be ignored whole, address included)
            let mut v = per_inst.clone();
            for p in v.iter_mut() {
                p.push(addr.clone());
            }
            v
        }
        2 => {
            let mut v: Vec<Vec<Record>> = per_inst.concat().into_iter().map(|r| vec![r]).collect();
            v.push(vec![addr]);
            v
        }
        _ => {
            let mut v: Vec<Vec<Record>> = per_inst.concat().into_iter().map(|r| vec![r]).collect();
            v.push(vec![addr]);
            v.reverse();
            v
        }
    };
    let np = packets.len();
    for (k, recs) in packets.into_iter().enumerate() {
        let p = build(&response(recs));
        if x[2] == 0 {
            w.queue(0, IF0, PEER0, p);
            if k + 1 == np {
                w.poke(0);
            }
        } else {
            w.deliver(0, IF0, PEER0, p);
        }
    }
    start_browses(&mut w, &mut chans, &late);
    let done_at = w.now;
    for (b, ch) in &chans {
        let evs = bevs(&w, 0, *ch, 0);
        for (k, i) in insts.iter().enumerate() {
            if !belongs[*b][k] {
                continue;
            }
            if late.contains(b) {
                // records that arrived before this browse started count only if their packet was
                // not solely an answer to someone else's browse of another type back then: the
                // packet holding this instance's PTR for b also held a PTR of an early-browsed type
                let owners: Vec<usize> = match x[1] {
                    0 => vec![0, 1, 2],
                    1 => [vec![0, 1], vec![0], vec![2]][k].clone(),
                    _ => vec![],
                };
                if !owners.iter().any(|o| early.contains(o)) {
                    res.count("late_browse_without_admissible_records", 1);
                    continue;
                }
            }
            let full = i.fullname();
            let f = evs.iter().position(|(_, e)| matches!(e, BEv::Found(_, f) if *f == full));
            let r = evs.iter().position(|(_, e)| matches!(e, BEv::Resolved(r) if r.fullname == full));
            let ctx = || format!("browse {} of {:?}, instance {}: events {:?}", tys[*b], open.iter().map(|b| tys[*b]).collect::<Vec<_>>(), full, evs.iter().map(|(t, e)| (t - T0, format!("{e:?}"))).collect::<Vec<_>>());
            res.count("channel_instance_pairs", 1);
            match (f, r) {
                (Some(f), Some(r)) if f < r => {
                    let lr = evs.iter().rposition(|(_, e)| matches!(e, BEv::Resolved(r) if r.fullname == full)).unwrap();
                    if let BEv::Resolved(rs) = &evs[lr].1 {
                        if rs.port != i.port || !rs.addrs.iter().any(|a| a.ip == ip4([10, 0, 0, 9])) {
                            res.viols.push(viol("C04|concurrent|resolved-with-wrong-content", ctx()));
                        }
                    }
                    if evs[r].0 > done_at {
                        res.viols.push(viol("C04|concurrent|resolved-later-than-the-next-scheduling-step", ctx()));
                    }
                }
                (Some(_), Some(_)) => res.viols.push(viol("C04|concurrent|ServiceResolved-before-ServiceFound", ctx())),
                (None, _) => res.viols.push(viol("C04|concurrent|complete-instance-not-reported|no-ServiceFound", ctx())),
                (_, None) => res.viols.push(viol("C04|concurrent|complete-instance-not-reported|no-ServiceResolved", ctx())),
            }
        }
    }
    if let Some(f) = daemon_fault(&w, 0) {
        res.viols.push(viol(format!("C04|daemon-fault|{}", panic_sig(&f)), f));
    }
    res.nontrivial = true;
    res.transitions = w.steps;
    res.outcome = outcome_hash(&w.log);
    res.states = final_states(&w);
    res
}

// ---------------------------------------------------------------- a daemon browsing its own service

/// With IP_MULTICAST_LOOP (the crate's default) a daemon hears its own announcements and answers:
/// a service it registered itself is "advertised for the browsed type" like any other.
fn run_own(x: &[u64], trace: bool) -> CaseResult {
    // x = [layout 0 v4 / 1 dual, order 0 browse first / 1 register, wait until announced, browse /
    //      2 register and browse at once, jitter index]
    let mut res = CaseResult::default();
    let dual = x[0] == 1;
    let mut w = World::one(if dual { lay_dual() } else { lay_v4() });
    w.trace = trace;
    w.loopback = true;
    w.ds[0].h.set_ip_check_interval(0).unwrap();
    w.ds[0].ctl.set_rng_default([0u64, 137, 249][x[2] as usize]);
    w.poke(0);
    let ips = if dual { "10.0.0.5,fd00::5" } else { "10.0.0.5" };
    let reg = |w: &mut World| {
        w.ds[0].h.register(svc("_t._tcp.local.", "Own", "ownhost.local.", ips, 4242, &[("k", "v")])).unwrap();
        w.poke(0);
    };
    let browse = |w: &mut World| -> usize {
        let rx = w.ds[0].h.browse("_t._tcp.local.").unwrap();
        let ch = w.add_browse(0, rx);
        w.poke(0);
        ch
    };
    let ch = match x[1] {
        0 => {
            let ch = browse(&mut w);
            w.advance(100);
            reg(&mut w);
            ch
        }
        1 => {
            reg(&mut w);
            w.advance(3000);
            browse(&mut w)
        }
        _ => {
            reg(&mut w);
            browse(&mut w)
        }
    };
    w.advance(4000);
    let evs = bevs(&w, 0, ch, 0);
    let full = "Own._t._tcp.local.";
    let f = evs.iter().position(|(_, e)| matches!(e, BEv::Found(_, f) if f.eq_ignore_ascii_case(full)));
    let r = evs.iter().rposition(|(_, e)| matches!(e, BEv::Resolved(r) if r.fullname.eq_ignore_ascii_case(full)));
    let ctx = || format!("events {:?}", evs.iter().map(|(t, e)| (t - T0, format!("{e:?}"))).collect::<Vec<_>>());
    res.count("own_service_cases", 1);
    match (f, r) {
        (Some(f), Some(r)) if f < r => {
            if let BEv::Resolved(rs) = &evs[r].1 {
                let want: Vec<std::net::IpAddr> = ips.split(',').map(|a| a.parse().unwrap()).collect();
                let got: Vec<std::net::IpAddr> = rs.addrs.iter().map(|a| a.ip).collect();
                if rs.port != 4242 || !rs.host.eq_ignore_ascii_case("ownhost.local.") || !want.iter().all(|a| got.contains(a)) || !got.iter().all(|a| want.contains(a)) {
                    res.viols.push(viol("C04|own-service|resolved-with-wrong-content", ctx()));
                }
            }
            // no later than one second after the second announcement (+750 +1000 +jitter) or the browse
            if evs[r].0 > T0 + 3100 + 2000 {
                res.viols.push(viol("C04|own-service|resolved-late", ctx()));
            }
        }
        (Some(_), Some(_)) => res.viols.push(viol("C04|own-service|ServiceResolved-before-ServiceFound", ctx())),
        (None, _) => res.viols.push(viol("C04|own-service|complete-instance-not-reported|no-ServiceFound", ctx())),
        (_, None) => res.viols.push(viol("C04|own-service|complete-instance-not-reported|no-ServiceResolved", ctx())),
    }
    if let Some(f) = daemon_fault(&w, 0) {
        res.viols.push(viol(format!("C04|daemon-fault|{}", panic_sig(&f)), f));
    }
    res.nontrivial = true;
    res.transitions = w.steps;
    res.outcome = outcome_hash(&w.log);
    res.states = final_states(&w);
    res
}

// ---------------------------------------------------------------- many instances at once, a client that reads late

/// One packet announces k complete instances (two events each) while the client has not read its
/// channel (capacity 10).  The client is slow but alive: it reads when the daemon waits for it.
/// Every instance must still be found and resolved.
fn run_burst(k: u64, trace: bool) -> CaseResult {
    let mut res = CaseResult::default();
    let mut w = World::one(lay_v4());
    w.trace = trace;
    w.release_when_blocked = true;
    w.ds[0].h.set_ip_check_interval(0).unwrap();
    w.poke(0);
    let rx = w.ds[0].h.browse("_t._tcp.local.").unwrap();
    let ch = w.add_browse(0, rx);
    w.ds[0].hold_b.push(ch);
    w.poke(0);
    let mut recs = vec![];
    let mut names = vec![];
    for j in 0..k {
        let i = Inst::simple(&format!("burst{j}"), "bursthost", [10, 0, 0, 9]);
        recs.push(i.ptr(120));
        recs.push(i.srv(120));
        recs.push(i.txt(120));
        names.push(i.fullname());
    }
    recs.push(a(&n("bursthost.local"), [10, 0, 0, 9], 120));
    w.deliver(0, IF0, PEER0, build(&response(recs)));
    w.advance(1500);
    w.ds[0].hold_b.clear();
    w.drain(0);
    let evs: Vec<BEv> = bevs(&w, 0, ch, 0).into_iter().map(|x| x.1).collect();
    res.count("bursts_checked", 1);
    for nm in &names {
        let f = evs.iter().any(|e| matches!(e, BEv::Found(_, f) if f == nm));
        let r = evs.iter().any(|e| matches!(e, BEv::Resolved(r) if r.fullname == *nm));
        if !f || !r {
            res.viols.push(viol(format!("C04|burst|instance-not-reported-to-a-client-that-reads-late|{}", if !f { "no-ServiceFound" } else { "no-ServiceResolved" }), format!("{k} instances in one packet: {nm} found={f} resolved={r}; {} events received", evs.len())));
            break;
        }
    }
    if let Some(f) = daemon_fault(&w, 0) {
        res.viols.push(viol(format!("C04|daemon-fault|{}", panic_sig(&f)), f));
    }
    res.nontrivial = true;
    res.transitions = w.steps;
    res.outcome = fnv128(format!("{evs:?}").as_bytes());
    res
}

pub fn check(tier: &str) -> i32 {
    let mut rep = Report::new("C04", tier, "model_checking");
    let thorough = rep.thorough();
    rep.assume("completeness antecedent: PTR, SRV, TXT and an address each with more than 1 s of TTL left; names in events are the dotted join of the received labels (what the repository's own test pins)");
    let parts = ordered_partitions();
    assert_eq!(parts.len(), 75);
    let nshapes = shapes().len() as u64;
    let dims = [75u64, 2, 3, 4, 3, nshapes, 2];
    let parts2 = parts.clone();
    let p1 = FnPart {
        name: "ordered-set-partitions".into(),
        rule: "all 75 ordered set-partitions of {PTR, SRV, TXT, A} into packets x placement (all answers / non-PTR as additionals) x duplication (none / first / last packet twice) x foreign material (none / foreign SRV+A inside / foreign-type PTR packet in between / foreign-type PTR inside a packet of ours) x gap (same iteration / next iteration / 300 ms) x 6 instance-name shapes x (type / subtype browse)".into(),
        n: product(&dims),
        describe: Box::new(move |i| { let x = unrank(i, &dims); format!("partition {:?} placement {} dup {} foreign {} gap {} shape {} subtype {}", parts2[x[0] as usize], x[1], x[2], x[3], x[4], shapes()[x[5] as usize].0, x[6]) }),
        run: Box::new(move |i, tr| run_partition(&unrank(i, &dims), &parts, tr)),
    };
    rep.run_part(&p1, Duration::from_secs(if thorough { 1800 } else { 50 }));

    let cdims = [7u64, 4, 2, 2];
    let pc = FnPart {
        name: "concurrent-browses".into(),
        rule: "every non-empty subset of browses {type T, subtype S of T, other type U} open at once x 3 instances sharing a host (T with subtype S, T, U) x packetisation (one packet / one per instance / one record per packet / that reversed) x (same iteration / next iteration) x (all browses before the records / the last one after them); every open channel must report each instance that belongs to it".into(),
        n: product(&cdims),
        describe: Box::new(move |i| { let x = unrank(i, &cdims); format!("browses {:#05b} packetisation {} gap {} late-browse {}", x[0] + 1, x[1], x[2], x[3]) }),
        run: Box::new(move |i, tr| { let mut x = unrank(i, &cdims); x[0] += 1; run_concurrent(&x, tr) }),
    };
    rep.run_part(&pc, Duration::from_secs(120));
    rep.require("concurrent-browses", "channel_instance_pairs");

    let odims = [2u64, 3, 3];
    let po = FnPart {
        name: "own-service-through-multicast-loop".into(),
        rule: "one daemon registers a service and browses its type while hearing its own multicasts (IPv4 / dual-stack) x (browse first / register, wait until announced, browse / both at once) x 3 jitters: its own instance must be found and resolved with its own values".into(),
        n: product(&odims),
        describe: Box::new(move |i| format!("{:?}", unrank(i, &odims))),
        run: Box::new(move |i, tr| run_own(&unrank(i, &odims), tr)),
    };
    rep.run_part(&po, Duration::from_secs(60));
    rep.require("own-service-through-multicast-loop", "own_service_cases");

    let pb = FnPart {
        name: "burst-with-a-slow-client".into(),
        rule: "one packet announcing k in {1, 4, 5, 6, 8, 12, 30} complete instances while the client has not read its channel (capacity 10) and reads only when the daemon waits for it: every instance found and resolved".into(),
        n: 7,
        describe: Box::new(|i| format!("k = {}", [1, 4, 5, 6, 8, 12, 30][i as usize])),
        run: Box::new(|i, tr| run_burst([1, 4, 5, 6, 8, 12, 30][i as usize], tr)),
    };
    rep.run_part(&pb, Duration::from_secs(120));
    rep.require("burst-with-a-slow-client", "bursts_checked");

    let perms = permutations4();
    let rdims = [24u64, 4, 2, 2];
    let perms3 = perms.clone();
    let perms4 = perms.clone();
    let p3 = FnPart {
        name: "single-loss-then-browse-again".into(),
        rule: "the 24 one-record-per-packet orders x each single packet lost x the responder answering from the first or second ask; 200 / 700 ms after the packets - between the daemon's follow-up questions - the application browses the type again: the new channel must get ServiceFound and ServiceResolved".into(),
        n: product(&rdims),
        describe: Box::new(move |i| { let x = unrank(i, &rdims); format!("order {:?} lost index {} unanswered rounds {} browse again after {} ms", perms3[x[0] as usize], x[1], x[2], [200, 700][x[3] as usize]) }),
        run: Box::new(move |i, tr| { let x = unrank(i, &rdims); run_loss_rb(&perms4[x[0] as usize], x[1] as usize, 0, x[2], [200, 700][x[3] as usize], tr) }),
    };
    rep.run_part(&p3, Duration::from_secs(300));
    rep.require("single-loss-then-browse-again", "browsed_again_during_the_follow_ups");
    let ldims = [24u64, 4, nshapes, 3];
    let perms2 = perms.clone();
    let p2 = FnPart {
        name: "single-loss-with-follow-ups".into(),
        rule: "the 24 one-record-per-packet orders x each single packet lost x 6 name shapes, followed by a scripted responder that answers exactly the names asked, from the first, second or third time a name is asked about".into(),
        n: product(&ldims),
        describe: Box::new(move |i| { let x = unrank(i, &ldims); format!("order {:?} lost index {} shape {} unanswered rounds {}", perms2[x[0] as usize], x[1], shapes()[x[2] as usize].0, x[3]) }),
        run: Box::new(move |i, tr| { let x = unrank(i, &ldims); run_loss(&perms[x[0] as usize], x[1] as usize, x[2] as usize, x[3], tr) }),
    };
    rep.run_part(&p2, Duration::from_secs(300));

    let scn = browse::Scn { prop: Prop::C04, horizon_ms: 3000, ops: browse::OPS.to_vec(), host: browse::HOST_PLAIN };
    rep.run_bfs(&scn, if thorough { 4 } else { 3 }, Duration::from_secs(if thorough { 1800 } else { 40 }));
    let scn2 = browse::Scn { prop: Prop::C04, horizon_ms: 3000, ops: browse::OPS.iter().copied().filter(|o| *o != browse::Op::VerifyI).collect(), host: browse::HOST_CAPITALS };
    rep.run_bfs(&scn2, if thorough { 3 } else { 2 }, Duration::from_secs(if thorough { 600 } else { 30 }));
    rep.require("browse-histories-C04-host-with-capitals", "completeness_antecedents");
    rep.require("ordered-set-partitions", "found_then_resolved");
    rep.require("single-loss-with-follow-ups", "resolved_after_loss");
    rep.require("single-loss-with-follow-ups", "followup_within_500ms");
    rep.require("browse-histories-C04", "completeness_antecedents");
    rep.finish()
}
