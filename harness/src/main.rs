//! vcheck — bounded exhaustive exploration of keepsimple1/mdns-sd (see /verif/DESIGN.md).
mod c01;
mod c02;
mod c06;
mod c07;
mod c16;
mod fw;
mod indep;
mod scn;
mod sim;

fn main() {
    let args: Vec<String> = std::env::args().collect();
    if args.len() < 3 {
        eprintln!("usage: vcheck <C01..C20> <quick|thorough>   |   vcheck replay <file>");
        std::process::exit(2);
    }
    fw::install_panic_hook();
    let id = args[1].as_str();
    let tier = args[2].as_str();
    std::env::set_var("VERIF_TIER", tier);
    let code = match id {
        "C01" => c01::check(tier),
        "C02" => c02::check(tier),
        "C06" => c06::check(tier),
        "C07" => c07::check(tier),
        "C16" => c16::check(tier),
        _ => {
            eprintln!("unknown check {id}");
            2
        }
    };
    std::process::exit(code);
}
