//! vcheck — bounded exhaustive exploration of keepsimple1/mdns-sd (see /verif/DESIGN.md).
mod alloc_track;
mod c01;

#[global_allocator]
static ALLOC: alloc_track::Counting = alloc_track::Counting;

mod browse;
mod c02;
mod c03;
mod c04;
mod c05;
mod c06;
mod c07;
mod c08;
mod c09;
mod c10;
mod c11;
mod c12;
mod c13;
mod c14;
mod c15;
mod c16;
mod c17;
mod c18;
mod c19;
mod c20;
mod fw;
mod indep;
mod refstore;
mod scn;
mod sim;

fn main() {
    let args: Vec<String> = std::env::args().collect();
    if args.len() < 3 {
        eprintln!("usage: vcheck <C01..C20> <quick|thorough>   |   vcheck replay <file>");
        std::process::exit(2);
    }
    fw::install_panic_hook();
    let (id, tier): (String, String) = if args[1] == "replay" {
        // vcheck replay <file>: re-run the recorded case with a trace
        let v: serde_json::Value = serde_json::from_str(
            &std::fs::read_to_string(&args[2]).expect("cannot read replay file"),
        )
        .expect("replay file is not JSON");
        let part = v["part"].as_str().unwrap_or("");
        let only = if let Some(h) = v["locator"]["history"].as_array() {
            format!(
                "{}:h={}",
                part,
                h.iter().map(|x| x.to_string()).collect::<Vec<_>>().join(",")
            )
        } else {
            format!("{}:{}", part, v["locator"]["index"].as_u64().unwrap_or(0))
        };
        std::env::set_var("VERIF_ONLY", only);
        let tier = v["tier"].as_str().unwrap_or("quick");
        (
            v["property"].as_str().unwrap_or("").to_string(),
            if tier.is_empty() { "quick".into() } else { tier.to_string() },
        )
    } else {
        (args[1].clone(), args[2].clone())
    };
    let id = id.as_str();
    let tier = tier.as_str();
    std::env::set_var("VERIF_TIER", tier);
    let code = match std::panic::catch_unwind(|| run(id, tier)) {
        Ok(c) => c,
        Err(_) => {
            println!(
                "MACHINERY-ERROR property={} harness panicked: {}",
                id,
                fw::last_harness_panic().unwrap_or_else(|| "(unknown)".into())
            );
            2
        }
    };
    std::process::exit(code);
}

fn run(id: &str, tier: &str) -> i32 {
    match id {
        "C01" => c01::check(tier),
        "C02" => c02::check(tier),
        "C03" => c03::check(tier),
        "C04" => c04::check(tier),
        "C05" => c05::check(tier),
        "C06" => c06::check(tier),
        "C07" => c07::check(tier),
        "C08" => c08::check(tier),
        "C09" => c09::check(tier),
        "C10" => c10::check(tier),
        "C11" => c11::check(tier),
        "C12" => c12::check(tier),
        "C13" => c13::check(tier),
        "C14" => c14::check(tier),
        "C15" => c15::check(tier),
        "C16" => c16::check(tier),
        "C17" => c17::check(tier),
        "C18" => c18::check(tier),
        "C19" => c19::check(tier),
        "C20" => c20::check(tier),
        _ => {
            eprintln!("unknown check {id}");
            2
        }
    }
}
