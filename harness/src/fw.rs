//! Framework: case enumeration in parallel, breadth-first exploration of event sequences,
//! violations with signatures, known findings, evidence and replay files.
use crate::sim::fnv128;
use serde_json::{json, Value};
use std::cell::RefCell;
use std::collections::{BTreeMap, HashMap, HashSet};
use std::sync::atomic::{AtomicBool, AtomicU64, Ordering};
use std::sync::Mutex;
use std::time::{Duration, Instant};

/// Root of the verification tree (set by ./check; /verif unless run from a snapshot).
pub fn verif_dir() -> String {
    std::env::var("VERIF_DIR").unwrap_or_else(|_| "/verif".to_string())
}

#[derive(Clone, Debug)]
pub struct Viol {
    /// Classification signature: oracle clause + what is necessary for it + call site.
    pub sig: String,
    pub detail: String,
}

pub fn viol(sig: impl Into<String>, detail: impl Into<String>) -> Viol {
    Viol {
        sig: sig.into(),
        detail: detail.into(),
    }
}

/// Result of executing one case (one input / one history).
#[derive(Default)]
pub struct CaseResult {
    pub viols: Vec<Viol>,
    /// Digests of distinct system states this execution reached (at least the final one).
    pub states: Vec<u128>,
    /// Number of transitions (events applied / daemon iterations / codec calls).
    pub transitions: u64,
    /// Hash of the canonical observable outcome.
    pub outcome: u128,
    /// Antecedent / vacuity counters.
    pub counters: Vec<(&'static str, u64)>,
    /// True if the case exercised the property (rule stated per part).
    pub nontrivial: bool,
}

impl CaseResult {
    pub fn count(&mut self, k: &'static str, n: u64) {
        if let Some(e) = self.counters.iter_mut().find(|(kk, _)| *kk == k) {
            e.1 += n;
        } else {
            self.counters.push((k, n));
        }
    }
}

/// A finite family of cases addressed by index.
pub trait Part: Sync {
    fn name(&self) -> String;
    fn len(&self) -> u64;
    fn describe(&self, idx: u64) -> String;
    fn run(&self, idx: u64, trace: bool) -> CaseResult;
    /// What makes a case non-trivial/distinct for this part (goes into evidence `rule`).
    fn rule(&self) -> String;
}

#[derive(Clone, Debug)]
pub struct Found {
    pub part: String,
    pub locator: Value,
    pub describe: String,
    pub viol: Viol,
    pub count: u64,
}

#[derive(Default)]
pub struct PartSummary {
    pub name: String,
    pub rule: String,
    pub cases: u64,
    pub executed: u64,
    pub nontrivial: u64,
    pub distinct_outcomes: u64,
    pub states: u64,
    pub transitions: u64,
    pub exhaustive: bool,
    pub cap_hit: Option<String>,
    pub depth_completed: Option<u64>,
    pub counters: BTreeMap<String, u64>,
    pub samples: Vec<String>,
    pub wall_s: f64,
}

pub struct Report {
    pub property: String,
    pub tier: String,
    pub seed: i64,
    pub level: String,
    pub parts: Vec<PartSummary>,
    pub found: Vec<Found>,
    pub assumptions: Vec<String>,
    pub started: Instant,
    pub all_states: HashSet<u128>,
    pub machinery_errors: Vec<String>,
    /// Counters that must be non-zero (vacuity guard): (part, counter).
    pub required: Vec<(String, String)>,
    /// Real-time watchdog per case: a case of a `run_part` part that has not returned after this
    /// long did not terminate (reported as a violation; the process then exits, the stuck thread
    /// cannot be stopped).  Default 300 s (`VERIF_CASE_LIMIT`); the wire-level checks set seconds.
    pub case_limit: Duration,
}

pub fn threads() -> usize {
    std::env::var("VERIF_THREADS")
        .ok()
        .and_then(|s| s.parse().ok())
        .unwrap_or_else(|| {
            std::thread::available_parallelism()
                .map(|n| n.get())
                .unwrap_or(8)
        })
}

impl Report {
    pub fn new(property: &str, tier: &str, level: &str) -> Report {
        let seed = std::env::var("VERIF_SEED")
            .ok()
            .and_then(|s| s.parse().ok())
            .unwrap_or(0);
        Report {
            property: property.into(),
            tier: tier.into(),
            seed,
            level: level.into(),
            parts: vec![],
            found: vec![],
            assumptions: vec![],
            started: Instant::now(),
            all_states: HashSet::new(),
            machinery_errors: vec![],
            required: vec![],
            case_limit: Duration::from_secs(std::env::var("VERIF_CASE_LIMIT").ok().and_then(|s| s.parse().ok()).unwrap_or(300)),
        }
    }

    pub fn thorough(&self) -> bool {
        self.tier == "thorough"
    }

    pub fn assume(&mut self, s: &str) {
        self.assumptions.push(s.to_string());
    }

    pub fn require(&mut self, part: &str, counter: &str) {
        self.required.push((part.into(), counter.into()));
    }

    fn add_found(&mut self, part: &str, locator: Value, describe: String, v: Viol) {
        if let Some(f) = self
            .found
            .iter_mut()
            .find(|f| f.viol.sig == v.sig && f.part == part)
        {
            f.count += 1;
            return;
        }
        self.found.push(Found {
            part: part.into(),
            locator,
            describe,
            viol: v,
            count: 1,
        });
    }

    /// Runs every case of `part` on all cores. `wall_cap`: stop handing out new cases after it.
    pub fn run_part(&mut self, part: &dyn Part, wall_cap: Duration) {
        // Replay / debugging: VERIF_ONLY="<part name>:<index>" runs that single case with a trace.
        if let Ok(only) = std::env::var("VERIF_ONLY") {
            let (pn, idx) = only.rsplit_once(':').unwrap_or((&only, "0"));
            if pn != part.name() {
                return;
            }
            let idx: u64 = idx.parse().unwrap_or(0);
            println!("== replay part {} case {}: {}", pn, idx, part.describe(idx));
            let limit = self.case_limit;
            let r = std::thread::scope(|s| {
                let h = s.spawn(|| part.run(idx, true));
                let t0 = Instant::now();
                while !h.is_finished() {
                    if t0.elapsed() > limit {
                        println!("   VIOL {}|case-did-not-terminate|{} :: no result after {:?} of real time", self.property, pn, limit);
                        println!("== 1 violation(s)");
                        std::process::exit(1);
                    }
                    std::thread::sleep(Duration::from_millis(20));
                }
                h.join().expect("case thread")
            });
            for v in &r.viols {
                println!("   VIOL {} :: {}", v.sig, v.detail);
            }
            println!("== {} violation(s), counters {:?}", r.viols.len(), r.counters);
            std::process::exit(if r.viols.is_empty() { 0 } else { 1 });
        }
        let t0 = Instant::now();
        let n = part.len();
        let next = AtomicU64::new(0);
        let capped = AtomicBool::new(false);
        let chunk: u64 = if n > 1_000_000 {
            4096
        } else if n > 20_000 {
            64
        } else {
            1
        };
        struct Acc {
            executed: u64,
            nontrivial: u64,
            transitions: u64,
            outcomes: HashSet<u128>,
            states: HashSet<u128>,
            counters: BTreeMap<String, u64>,
            found: Vec<(u64, Viol)>,
            sig_seen: HashMap<String, u64>,
        }
        let accs: Mutex<Vec<Acc>> = Mutex::new(vec![]);
        let nthreads = threads().min(n.max(1) as usize).max(1);
        let progress = std::env::var("VERIF_PROGRESS").is_ok();
        // watchdog: (case index in progress or u64::MAX, milliseconds since t0 when it began)
        let slots: Vec<(AtomicU64, AtomicU64)> = (0..nthreads).map(|_| (AtomicU64::new(u64::MAX), AtomicU64::new(0))).collect();
        let workers_done = AtomicU64::new(0);
        let case_limit = self.case_limit;
        let mut stuck: Option<u64> = None;
        std::thread::scope(|s| {
            let mut handles = vec![];
            for w in 0..nthreads {
                let slots = &slots;
                let workers_done = &workers_done;
                let accs = &accs;
                let next = &next;
                let capped = &capped;
                handles.push(s.spawn(move || {
                    let mut a = Acc {
                        executed: 0,
                        nontrivial: 0,
                        transitions: 0,
                        outcomes: HashSet::new(),
                        states: HashSet::new(),
                        counters: BTreeMap::new(),
                        found: vec![],
                        sig_seen: HashMap::new(),
                    };
                    loop {
                        if t0.elapsed() > wall_cap {
                            capped.store(true, Ordering::Relaxed);
                            break;
                        }
                        let start = next.fetch_add(chunk, Ordering::Relaxed);
                        if start >= n {
                            break;
                        }
                        for idx in start..(start + chunk).min(n) {
                            if progress {
                                eprintln!("    case {idx} start");
                            }
                            slots[w].1.store(t0.elapsed().as_millis() as u64, Ordering::Relaxed);
                            slots[w].0.store(idx, Ordering::Release);
                            let r = part.run(idx, false);
                            slots[w].0.store(u64::MAX, Ordering::Release);
                            a.executed += 1;
                            a.nontrivial += r.nontrivial as u64;
                            a.transitions += r.transitions;
                            if a.outcomes.len() < 2_000_000 {
                                a.outcomes.insert(r.outcome);
                            }
                            if a.states.len() < 4_000_000 {
                                a.states.extend(r.states);
                            }
                            for (k, v) in r.counters {
                                *a.counters.entry(k.to_string()).or_default() += v;
                            }
                            for v in r.viols {
                                let c = a.sig_seen.entry(v.sig.clone()).or_default();
                                *c += 1;
                                if *c == 1 {
                                    a.found.push((idx, v));
                                }
                            }
                        }
                    }
                    accs.lock().unwrap().push(a);
                    workers_done.fetch_add(1, Ordering::Release);
                }));
            }
            // the spawning thread is the watchdog (a worker that ended by a panic of the harness is
            // not stuck: the panic surfaces when the scope ends, as a machinery error)
            while handles.iter().any(|h| !h.is_finished()) {
                std::thread::sleep(Duration::from_millis(25));
                let now_ms = t0.elapsed().as_millis() as u64;
                for (w, sl) in slots.iter().enumerate() {
                    let idx = sl.0.load(Ordering::Acquire);
                    if handles[w].is_finished() {
                        continue;
                    }
                    if idx != u64::MAX && now_ms.saturating_sub(sl.1.load(Ordering::Relaxed)) > case_limit.as_millis() as u64 && sl.0.load(Ordering::Acquire) == idx {
                        stuck = Some(idx);
                    }
                }
                if let Some(idx) = stuck {
                    // the stuck thread cannot be stopped: report from here and end the process
                    let d = part.describe(idx);
                    let sig = format!("{}|case-did-not-terminate|{}", self.property, part.name());
                    self.add_found(&part.name(), json!({"index": idx}), d, viol(sig, format!("the case had not returned after {case_limit:?} of real time (the other cases of the part were abandoned)")));
                    let code = self.finish_inner();
                    std::process::exit(code);
                }
            }
        });
        let accs = accs.into_inner().unwrap();
        let mut ps = PartSummary {
            name: part.name(),
            rule: part.rule(),
            cases: n,
            ..Default::default()
        };
        let mut outcomes = HashSet::new();
        let mut states = HashSet::new();
        let mut found: Vec<(u64, Viol, u64)> = vec![];
        for a in accs {
            ps.executed += a.executed;
            ps.nontrivial += a.nontrivial;
            ps.transitions += a.transitions;
            outcomes.extend(a.outcomes);
            states.extend(a.states);
            for (k, v) in a.counters {
                *ps.counters.entry(k).or_default() += v;
            }
            for (idx, v) in a.found {
                let cnt = a.sig_seen[&v.sig];
                if let Some(f) = found.iter_mut().find(|f| f.1.sig == v.sig) {
                    f.2 += cnt;
                    if idx < f.0 {
                        f.0 = idx;
                        f.1 = v;
                    }
                } else {
                    found.push((idx, v, cnt));
                }
            }
        }
        ps.distinct_outcomes = outcomes.len() as u64;
        ps.states = states.len() as u64;
        self.all_states.extend(states);
        ps.exhaustive = ps.executed == n && !capped.load(Ordering::Relaxed);
        if !ps.exhaustive {
            ps.cap_hit = Some(format!(
                "wall cap {:?} hit after {} of {} cases",
                wall_cap, ps.executed, n
            ));
        }
        for i in sample_indices(n) {
            ps.samples.push(part.describe(i));
        }
        // Determinism self-check: a fixed sample of cases is executed twice more; the canonical
        // observable outcome must be identical. A divergence is a machinery error, not a verdict.
        if !capped.load(Ordering::Relaxed) {
            for i in sample_indices(n) {
                let a = part.run(i, false);
                let b = part.run(i, false);
                ps.counters.entry("determinism_replays".into()).and_modify(|c| *c += 1).or_insert(1);
                if a.outcome != b.outcome || a.viols.len() != b.viols.len() {
                    self.machinery_errors.push(format!("nondeterminism: part {} case {} ({}) gave different outcomes on replay", ps.name, i, truncate(&part.describe(i), 120)));
                }
            }
        }
        ps.wall_s = t0.elapsed().as_secs_f64();
        found.sort_by_key(|f| f.0);
        for (idx, v, cnt) in found {
            let d = part.describe(idx);
            self.add_found(&ps.name.clone(), json!({"index": idx}), d, v);
            if let Some(f) = self.found.last_mut() {
                f.count = f.count.max(cnt);
            }
        }
        eprintln!(
            "  part {}: {} / {} cases, {} nontrivial, {} outcomes, {} states, {} transitions, {:.1}s{}",
            ps.name,
            ps.executed,
            ps.cases,
            ps.nontrivial,
            ps.distinct_outcomes,
            ps.states,
            ps.transitions,
            ps.wall_s,
            ps.cap_hit
                .as_ref()
                .map(|c| format!(" CAP: {c}"))
                .unwrap_or_default()
        );
        self.parts.push(ps);
    }

    /// Breadth-first exploration of all event sequences of a scenario up to `max_depth`.
    pub fn run_bfs<S: Scenario>(&mut self, scn: &S, max_depth: usize, wall_cap: Duration) {
        // Replay: VERIF_ONLY="<scenario name>:h=<i,j,k>" runs that single history with a trace.
        if let Ok(only) = std::env::var("VERIF_ONLY") {
            let Some((pn, h)) = only.rsplit_once(":h=") else {
                return;
            };
            if pn != scn.name() {
                return;
            }
            let h: Vec<usize> = h.split(',').filter(|x| !x.is_empty()).map(|x| x.parse().unwrap()).collect();
            std::env::set_var("VERIF_TRACE", "1");
            println!("== replay scenario {} history {:?}", pn, h);
            let mut run = scn.setup();
            for &c in &h {
                let m = scn.menu(&run);
                println!("  -- event {}", m.get(c).cloned().unwrap_or_else(|| "?".into()));
                scn.apply(&mut run, c);
            }
            println!("  -- horizon");
            scn.finish(&mut run);
            let r = scn.result(run);
            for v in &r.viols {
                println!("   VIOL {} :: {}", v.sig, v.detail);
            }
            println!("== {} violation(s), counters {:?}", r.viols.len(), r.counters);
            std::process::exit(if r.viols.is_empty() { 0 } else { 1 });
        }
        let t0 = Instant::now();
        let mut ps = PartSummary {
            name: scn.name(),
            rule: scn.rule(),
            ..Default::default()
        };
        let mut seen: HashSet<u128> = HashSet::new();
        let mut outcomes: HashSet<u128> = HashSet::new();
        let mut frontier: Vec<Vec<u16>> = vec![vec![]];
        let mut depth_completed: Option<u64> = None;
        let mut capped = false;
        let mut found: Vec<(Vec<u16>, Viol, u64)> = vec![];
        let mut replay_sample: Vec<Vec<u16>> = vec![];
        for depth in 0..=max_depth {
            if frontier.is_empty() {
                depth_completed = Some(max_depth as u64);
                break;
            }
            let n = frontier.len() as u64;
            let next = AtomicU64::new(0);
            let stop = AtomicBool::new(false);
            struct Item {
                idx: u64,
                digest: u128,
                menu_len: usize,
                res: CaseResult,
            }
            let items: Mutex<Vec<Item>> = Mutex::new(Vec::with_capacity(n as usize));
            let nthreads = threads().min(n as usize).max(1);
            let fr = &frontier;
            std::thread::scope(|s| {
                for _ in 0..nthreads {
                    s.spawn(|| {
                        let mut local = vec![];
                        loop {
                            if t0.elapsed() > wall_cap {
                                stop.store(true, Ordering::Relaxed);
                                break;
                            }
                            let i = next.fetch_add(1, Ordering::Relaxed);
                            if i >= n {
                                break;
                            }
                            let h = &fr[i as usize];
                            let mut run = scn.setup();
                            for &c in h.iter() {
                                scn.apply(&mut run, c as usize);
                            }
                            let digest = scn.digest(&mut run);
                            let menu_len = scn.menu(&run).len();
                            scn.finish(&mut run);
                            let res = scn.result(run);
                            local.push(Item {
                                idx: i,
                                digest,
                                menu_len,
                                res,
                            });
                        }
                        items.lock().unwrap().extend(local);
                    });
                }
            });
            let mut items = items.into_inner().unwrap();
            items.sort_by_key(|it| it.idx);
            let level_complete = !stop.load(Ordering::Relaxed) && items.len() as u64 == n;
            let mut next_frontier: Vec<Vec<u16>> = vec![];
            for it in items {
                let h = &frontier[it.idx as usize];
                ps.executed += 1;
                ps.nontrivial += it.res.nontrivial as u64;
                outcomes.insert(it.res.outcome);
                for (k, v) in it.res.counters {
                    *ps.counters.entry(k.to_string()).or_default() += v;
                }
                for v in it.res.viols {
                    if let Some(f) = found.iter_mut().find(|f| f.1.sig == v.sig) {
                        f.2 += 1;
                    } else {
                        found.push((h.clone(), v, 1));
                    }
                }
                if seen.insert(it.digest) && depth < max_depth {
                    for c in 0..it.menu_len {
                        let mut hh = h.clone();
                        hh.push(c as u16);
                        next_frontier.push(hh);
                        ps.transitions += 1;
                    }
                }
                if ps.samples.len() < 3 && h.len() == depth && depth > 0 && it.idx % 7 == 3 {
                    ps.samples.push(scn.describe(h));
                }
                if h.len() == depth && depth > 0 && (it.idx == 0 || it.idx == n / 2 || it.idx + 1 == n) {
                    if replay_sample.len() >= 6 {
                        replay_sample.remove(0);
                    }
                    replay_sample.push(h.clone());
                }
            }
            if !level_complete {
                capped = true;
                ps.cap_hit = Some(format!(
                    "wall cap {:?} hit in level {} ({} of {} histories)",
                    wall_cap, depth, ps.executed, n
                ));
                break;
            }
            depth_completed = Some(depth as u64);
            eprintln!(
                "    bfs {} depth {}: {} histories, {} states so far, next frontier {}",
                ps.name,
                depth,
                n,
                seen.len(),
                next_frontier.len()
            );
            frontier = next_frontier;
        }
        // Determinism self-check on a few explored histories (run twice, compare outcome + digest).
        for h in replay_sample.iter() {
            let mut outs = vec![];
            for _ in 0..2 {
                let mut run = scn.setup();
                for &c in h.iter() {
                    scn.apply(&mut run, c as usize);
                }
                let d = scn.digest(&mut run);
                scn.finish(&mut run);
                let r = scn.result(run);
                outs.push((d, r.outcome, r.viols.len()));
            }
            ps.counters.entry("determinism_replays".into()).and_modify(|c| *c += 1).or_insert(1);
            if outs[0] != outs[1] {
                self.machinery_errors.push(format!("nondeterminism: scenario {} history {:?} gave different digests/outcomes on replay", ps.name, h));
            }
        }
        ps.cases = ps.executed;
        ps.states = seen.len() as u64;
        ps.distinct_outcomes = outcomes.len() as u64;
        ps.depth_completed = depth_completed;
        ps.exhaustive = !capped;
        ps.wall_s = t0.elapsed().as_secs_f64();
        if ps.samples.is_empty() {
            ps.samples.push(scn.describe(&[]));
        }
        self.all_states.extend(seen);
        let name = ps.name.clone();
        for (h, v, cnt) in found {
            let d = scn.describe(&h);
            self.add_found(&name, json!({"history": h}), d, v);
            if let Some(f) = self.found.last_mut() {
                f.count = f.count.max(cnt);
            }
        }
        eprintln!(
            "  bfs {}: {} executions, {} states, {} transitions, depth {:?}, {} outcomes, {:.1}s{}",
            ps.name,
            ps.executed,
            ps.states,
            ps.transitions,
            ps.depth_completed,
            ps.distinct_outcomes,
            ps.wall_s,
            ps.cap_hit
                .as_ref()
                .map(|c| format!(" CAP: {c}"))
                .unwrap_or_default()
        );
        self.parts.push(ps);
    }

    /// Writes evidence, prints verdict lines, returns the process exit code.
    pub fn finish(mut self) -> i32 {
        self.finish_inner()
    }

    fn finish_inner(&mut self) -> i32 {
        if std::env::var("VERIF_ONLY").is_ok() {
            println!("replay: no part of {} matched VERIF_ONLY", self.property);
            return 2;
        }
        let known = load_known();
        let wall = self.started.elapsed().as_secs_f64();
        // vacuity guards: a zero antecedent counter makes a quiet run worthless; next to a reported
        // violation it is only a note (the counter usually counts the cases that passed a clause)
        let mut vacuous = vec![];
        for (p, c) in self.required.clone() {
            let ok = self
                .parts
                .iter()
                .any(|ps| ps.name == p && ps.counters.get(&c).copied().unwrap_or(0) > 0);
            if !ok {
                vacuous.push(format!("vacuity guard: counter '{c}' of part '{p}' is zero"));
            }
        }
        let mut new_viol = 0;
        let mut known_hits = vec![];
        let mut lines = vec![];
        for f in &self.found {
            let is_known = known
                .iter()
                .any(|k| k.status == "known" && k.property == self.property && k.sig == f.viol.sig);
            if is_known {
                known_hits.push(f.viol.sig.clone());
                lines.push(format!(
                    "KNOWN-FINDING: property={} {} [{}x; first: {}]",
                    self.property,
                    f.viol.sig,
                    f.count,
                    truncate(&f.describe, 200)
                ));
            } else {
                new_viol += 1;
                let path = write_replay(&self.property, f);
                lines.push(format!(
                    "VIOLATION property={} replay={}",
                    self.property, path
                ));
                lines.push(format!(
                    "  signature: {}\n  part: {}\n  case: {}\n  detail: {}\n  occurrences: {}",
                    f.viol.sig,
                    f.part,
                    truncate(&f.describe, 600),
                    truncate(&f.viol.detail, 1200),
                    f.count
                ));
            }
        }
        if new_viol == 0 {
            self.machinery_errors.extend(vacuous);
        } else {
            for v in vacuous {
                lines.push(format!("  note: {v}"));
            }
        }
        let evaluations: u64 = self.parts.iter().map(|p| p.executed).sum();
        let nontrivial: u64 = self.parts.iter().map(|p| p.distinct_outcomes).sum();
        let transitions: u64 = self.parts.iter().map(|p| p.transitions).sum();
        let states = self.all_states.len() as u64;
        let exhaustive = self.parts.iter().all(|p| p.exhaustive);
        let mut samples: Vec<Value> = vec![];
        for p in &self.parts {
            for s in p.samples.iter().take(3) {
                samples.push(json!({"part": p.name, "case": truncate(s, 400)}));
            }
        }
        let rule = self
            .parts
            .iter()
            .map(|p| format!("[{}] {}", p.name, p.rule))
            .collect::<Vec<_>>()
            .join(" ");
        let parts: Vec<Value> = self
            .parts
            .iter()
            .map(|p| {
                json!({
                    "name": p.name, "cases_in_space": p.cases, "executed": p.executed,
                    "nontrivial_cases": p.nontrivial, "distinct_outcomes": p.distinct_outcomes,
                    "states": p.states, "transitions": p.transitions, "exhaustive": p.exhaustive,
                    "cap_hit": p.cap_hit, "depth_completed": p.depth_completed,
                    "antecedent_counters": p.counters, "wall_s": p.wall_s,
                })
            })
            .collect();
        let ev = json!({
            "property_id": self.property,
            "tier": self.tier,
            "seed": self.seed,
            "level": self.level,
            "coverage": {
                "evaluations": evaluations,
                "distinct_nontrivial": nontrivial,
                "rule": format!("distinct_nontrivial = number of distinct canonical observable outcomes (hash of what the implementation returned / sent / reported), summed over parts. {rule}"),
                "samples": samples,
                "states": states.max(1),
                "transitions": transitions.max(1),
                "traces_validated_against_impl": evaluations,
                "explanation": "Every explored case is an execution of the real implementation (no separate model), so every trace is an implementation trace.",
                "exhaustive": exhaustive,
                "parts": parts,
                "hash_seed": std::env::var("VERIF_HASH_SEED").unwrap_or_default(),
                "known_findings_reported": known_hits,
                "machinery_errors": self.machinery_errors,
            },
            "assumptions": self.assumptions,
            "wall_s": wall,
            "violations": new_viol,
        });
        let dir = format!("{}/evidence", verif_dir());
        let _ = std::fs::create_dir_all(&dir);
        let path = format!("{dir}/{}.json", self.property);
        // (a replay re-runs a check to reproduce one finding: it is not a tier and leaves the evidence alone)
        if self.tier == "quick" || self.tier == "thorough" {
            if let Err(e) = std::fs::write(&path, serde_json::to_string_pretty(&ev).unwrap()) {
                eprintln!("cannot write evidence {path}: {e}");
                return 2;
            }
        }
        for l in lines {
            println!("{l}");
        }
        if !self.machinery_errors.is_empty() {
            for e in &self.machinery_errors {
                println!("MACHINERY-ERROR property={} {}", self.property, e);
            }
            return 2;
        }
        println!(
            "{} {} {}: {} executions, {} states, {} transitions, exhaustive={}, {} new violation(s), {} known finding(s), {:.1}s",
            self.property, self.tier, if new_viol == 0 { "HELD" } else { "VIOLATED" },
            evaluations, states, transitions, exhaustive, new_viol, known_hits.len(), wall
        );
        if new_viol > 0 {
            1
        } else {
            0
        }
    }
}

fn sample_indices(n: u64) -> Vec<u64> {
    if n == 0 {
        return vec![];
    }
    let mut v = vec![0, n / 2, n - 1];
    v.dedup();
    v
}

pub fn truncate(s: &str, n: usize) -> String {
    if s.len() <= n {
        s.to_string()
    } else {
        let mut e = n;
        while !s.is_char_boundary(e) {
            e -= 1;
        }
        format!("{}…(+{} bytes)", &s[..e], s.len() - e)
    }
}

/// Scenario for breadth-first exploration: events are chosen by index into a deterministic menu.
pub trait Scenario: Sync {
    type Run;
    fn name(&self) -> String;
    fn rule(&self) -> String;
    fn setup(&self) -> Self::Run;
    fn menu(&self, run: &Self::Run) -> Vec<String>;
    fn apply(&self, run: &mut Self::Run, choice: usize);
    fn digest(&self, run: &mut Self::Run) -> u128;
    fn finish(&self, run: &mut Self::Run);
    fn result(&self, run: Self::Run) -> CaseResult;
    /// Human-readable history (replays the menu labels).
    fn describe(&self, h: &[u16]) -> String {
        let mut run = self.setup();
        let mut out = vec![];
        for &c in h {
            let m = self.menu(&run);
            out.push(m.get(c as usize).cloned().unwrap_or_else(|| "?".into()));
            self.apply(&mut run, c as usize);
        }
        format!("[{}]", out.join(" ; "))
    }
}

// ---------------------------------------------------------------- known findings

#[derive(Clone, Debug)]
pub struct Known {
    pub status: String,
    pub property: String,
    pub sig: String,
}

/// Lines of /verif/known_findings.txt:
///   known: property=C04 sig="..." what="..."
///   fixed: property=C01 <commit> <what failed> sig="..."
pub fn load_known() -> Vec<Known> {
    let path = format!("{}/known_findings.txt", verif_dir());
    let Ok(s) = std::fs::read_to_string(path) else {
        return vec![];
    };
    let mut v = vec![];
    for line in s.lines() {
        let line = line.trim();
        let status = if line.starts_with("known:") {
            "known"
        } else if line.starts_with("fixed:") {
            "fixed"
        } else {
            continue;
        };
        let property = line
            .split_whitespace()
            .find_map(|w| w.strip_prefix("property="))
            .unwrap_or("")
            .to_string();
        let sig = match line.find("sig=\"") {
            Some(i) => {
                let rest = &line[i + 5..];
                rest[..rest.find('"').unwrap_or(rest.len())].to_string()
            }
            None => String::new(),
        };
        v.push(Known {
            status: status.into(),
            property,
            sig,
        });
    }
    v
}

fn write_replay(property: &str, f: &Found) -> String {
    let dir = format!("{}/replays/{property}", verif_dir());
    let _ = std::fs::create_dir_all(&dir);
    let h = fnv128(format!("{}|{}", f.part, f.viol.sig).as_bytes());
    let path = format!("{dir}/{:016x}.json", (h >> 64) as u64);
    let v = json!({
        "property": property,
        "part": f.part,
        "locator": f.locator,
        "case": f.describe,
        "signature": f.viol.sig,
        "detail": f.viol.detail,
        "tier": std::env::var("VERIF_TIER").unwrap_or_default(),
        "hash_seed": std::env::var("VERIF_HASH_SEED").unwrap_or_default(),
    });
    let _ = std::fs::write(&path, serde_json::to_string_pretty(&v).unwrap());
    path
}

// ---------------------------------------------------------------- panic capture

thread_local! {
    static LAST_PANIC: RefCell<Option<String>> = const { RefCell::new(None) };
}

/// Installs a quiet panic hook that remembers "message @ file:line" per thread and in the
/// daemon's controller (for daemon-thread panics).
pub fn install_panic_hook() {
    std::panic::set_hook(Box::new(|info| {
        let msg = if let Some(s) = info.payload().downcast_ref::<&str>() {
            s.to_string()
        } else if let Some(s) = info.payload().downcast_ref::<String>() {
            s.clone()
        } else if info
            .payload()
            .downcast_ref::<mdns_sd::verif::FuelExhausted>()
            .is_some()
        {
            "FUEL".to_string()
        } else {
            "<non-string panic>".to_string()
        };
        let loc = info
            .location()
            .map(|l| format!("{}:{}", l.file(), l.line()))
            .unwrap_or_default();
        let text = format!("{msg} @ {loc}");
        if std::env::var("VERIF_TRACE").is_ok() && msg != "FUEL" {
            eprintln!("    PANIC in {:?}: {text}", std::thread::current().name());
        }
        mdns_sd::verif::note_panic(text.clone());
        // harness-side panics outside a guarded call are machinery errors: keep the last one
        // globally so that main can report it
        if std::thread::current().name() != Some("mDNS_daemon_sim") && msg != "FUEL" {
            if let Ok(mut g) = LAST_HARNESS_PANIC.lock() {
                if !msg.contains("scoped thread panicked") {
                    *g = Some(text.clone());
                }
            }
        }
        LAST_PANIC.with(|p| *p.borrow_mut() = Some(text));
    }));
}

static LAST_HARNESS_PANIC: Mutex<Option<String>> = Mutex::new(None);

pub fn take_panic() -> Option<String> {
    LAST_PANIC.with(|p| p.borrow_mut().take())
}

pub fn last_harness_panic() -> Option<String> {
    LAST_HARNESS_PANIC.lock().ok().and_then(|g| g.clone())
}

/// Normalises a panic text into a signature fragment: source file name, and the message with
/// digits removed (indices and lengths vary with the input; line numbers shift with edits).
pub fn panic_sig(text: &str) -> String {
    let (msg, loc) = text.rsplit_once(" @ ").unwrap_or((text, ""));
    let file = loc.rsplit('/').next().unwrap_or(loc);
    let file = file.split(':').next().unwrap_or(file);
    let mut m = String::new();
    let mut last_digit = false;
    for c in msg.chars().take(80) {
        if c.is_ascii_digit() {
            if !last_digit {
                m.push('N');
            }
            last_digit = true;
        } else {
            m.push(c);
            last_digit = false;
        }
    }
    format!("{file}|{m}")
}

/// Simple index-based part built from closures.
pub struct FnPart<'a> {
    pub name: String,
    pub rule: String,
    pub n: u64,
    pub describe: Box<dyn Fn(u64) -> String + Sync + 'a>,
    pub run: Box<dyn Fn(u64, bool) -> CaseResult + Sync + 'a>,
}

impl Part for FnPart<'_> {
    fn name(&self) -> String {
        self.name.clone()
    }
    fn len(&self) -> u64 {
        self.n
    }
    fn describe(&self, idx: u64) -> String {
        (self.describe)(idx)
    }
    fn run(&self, idx: u64, trace: bool) -> CaseResult {
        (self.run)(idx, trace)
    }
    fn rule(&self) -> String {
        self.rule.clone()
    }
}

/// Mixed-radix decomposition of an index over dimension sizes.
pub fn unrank(mut idx: u64, dims: &[u64]) -> Vec<u64> {
    let mut v = Vec::with_capacity(dims.len());
    for &d in dims {
        v.push(idx % d);
        idx /= d;
    }
    v
}

pub fn product(dims: &[u64]) -> u64 {
    dims.iter().product()
}
