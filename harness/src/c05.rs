//! C05 — departed services are reported removed, on time and only when true (Engine S).
use crate::browse::*;
use crate::fw::*;
use std::time::Duration;

pub fn check(tier: &str) -> i32 {
    let mut rep = Report::new("C05", tier, "model_checking");
    let thorough = rep.thorough();
    rep.assume("a ServiceRemoved up to 1 s before the reference lapse is accepted (the implementation treats the last second of a TTL as 'expires soon'); duplicate removals are not flagged");
    let scn = Scn { prop: Prop::C05, horizon_ms: 125_000, ops: OPS.to_vec(), host: HOST_PLAIN };
    rep.run_bfs(&scn, if thorough { 5 } else { 4 }, Duration::from_secs(if thorough { 3000 } else { 110 }));
    let scn2 = Scn { prop: Prop::C05, horizon_ms: 125_000, ops: OPS.iter().copied().filter(|o| *o != Op::VerifyI).collect(), host: HOST_CAPITALS };
    rep.run_bfs(&scn2, if thorough { 4 } else { 3 }, Duration::from_secs(if thorough { 1200 } else { 30 }));
    rep.require("browse-histories-C05", "removed_events_checked");
    rep.require("browse-histories-C05-host-with-capitals", "removed_events_checked");
    rep.require("browse-histories-C05", "lapses_checked");
    rep.finish()
}
