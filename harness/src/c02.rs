//! C02 — every emitted packet parses back to exactly the records that were added (Engine W).
use crate::fw::*;
use crate::indep::{self, *};
use mdns_sd::verif::wire;
use std::panic::{catch_unwind, AssertUnwindSafe};
use std::time::Duration;

/// Independent RFC 6763 section 4.3 unescaping of the crate's dotted name strings:
/// `\.` is a literal dot, `\\` a literal backslash, an unescaped `.` separates labels.
pub fn labels_of(name: &str) -> Name {
    let mut labels = vec![];
    let mut cur: Vec<u8> = vec![];
    let b = name.as_bytes();
    let mut i = 0;
    while i < b.len() {
        match b[i] {
            b'\\' if i + 1 < b.len() && (b[i + 1] == b'.' || b[i + 1] == b'\\') => {
                cur.push(b[i + 1]);
                i += 2;
            }
            b'.' => {
                if !cur.is_empty() {
                    labels.push(std::mem::take(&mut cur));
                }
                i += 1;
            }
            c => {
                cur.push(c);
                i += 1;
            }
        }
    }
    if !cur.is_empty() {
        labels.push(cur);
    }
    labels
}

#[derive(Clone, Debug)]
pub enum Entry {
    Q(String, u16),
    An(wire::Rec),
    Ns(wire::Rec),
    Ar(wire::Rec),
}

fn expected_record(r: &wire::Rec) -> Record {
    let rd = match &r.rdata {
        wire::RData::A(a) => RD::A(a.octets()),
        wire::RData::Aaaa(a) => RD::Aaaa(a.octets()),
        wire::RData::Ptr(t) => RD::Ptr(labels_of(t)),
        wire::RData::Srv {
            priority,
            weight,
            port,
            host,
        } => RD::Srv {
            priority: *priority,
            weight: *weight,
            port: *port,
            target: labels_of(host),
        },
        wire::RData::Txt(t) => RD::Txt(t.clone()),
        other => panic!("not in C02 scope: {other:?}"),
    };
    Record {
        name: labels_of(&r.name),
        rtype: r.ty,
        class: r.class,
        flush: r.flush,
        ttl: r.ttl,
        rd,
    }
}

fn l63() -> String {
    "L".repeat(63)
}

pub fn name_menu() -> Vec<String> {
    vec![
        "local.".into(),
        "a.local.".into(),
        "b.a.local.".into(),
        "a\\.b.local.".into(),
        "a.b.local.".into(),
        "x\\\\.local.".into(),
        "é.local.".into(),
        format!("{}.local.", l63()),
        "c.b.a.local.".into(),
        "A.local.".into(),
        // [a\][b][local]: renders like the dotted single label [a.b] under a naive re-escaping
        "a\\\\.b.local.".into(),
    ]
}

const TTLS: [u32; 5] = [0, 1, 0x7FFF_FFFF, 0x8000_0000, 0xFFFF_FFFF];

pub fn entry_menu() -> Vec<Entry> {
    let nm = name_menu();
    let mut v = vec![];
    let mut k = 0usize;
    let mut ttl = || {
        k += 1;
        TTLS[k % TTLS.len()]
    };
    // questions
    v.push(Entry::Q(nm[1].clone(), 12));
    v.push(Entry::Q(nm[3].clone(), 255));
    v.push(Entry::Q(nm[4].clone(), 1));
    // PTR: owner / target collide in the compression table in several ways
    let ptr = |o: &str, t: &str, ttl: u32| wire::Rec::new(o, 1, ttl, wire::RData::Ptr(t.into()));
    v.push(Entry::An(ptr(&nm[1], &nm[2], ttl())));
    v.push(Entry::An(ptr(&nm[1], &nm[3], ttl())));
    v.push(Entry::An(ptr(&nm[4], &nm[4], ttl())));
    v.push(Entry::An(ptr(&nm[3], &nm[8], ttl())));
    v.push(Entry::Ar(ptr(&nm[0], &nm[5], ttl())));
    v.push(Entry::An(ptr(&nm[7], &nm[6], ttl())));
    v.push(Entry::An(ptr(&nm[10], &nm[3], ttl())));
    v.push(Entry::Q(nm[10].clone(), 33));
    // SRV
    let srv = |o: &str, h: &str, ttl: u32| {
        wire::Rec::new(
            o,
            0x8001,
            ttl,
            wire::RData::Srv {
                priority: 1,
                weight: 2,
                port: 8080,
                host: h.into(),
            },
        )
    };
    v.push(Entry::An(srv(&nm[2], &nm[1], ttl())));
    v.push(Entry::Ns(srv(&nm[3], &nm[4], ttl())));
    v.push(Entry::Ar(srv(&nm[8], &nm[9], ttl())));
    v.push(Entry::Ar(srv(&nm[5], &nm[7], ttl())));
    // TXT
    let txt = |o: &str, t: &[u8], cl: u16, ttl: u32| {
        wire::Rec::new(o, cl, ttl, wire::RData::Txt(t.to_vec()))
    };
    v.push(Entry::An(txt(&nm[2], &[0], 0x8001, ttl())));
    v.push(Entry::Ar(txt(&nm[3], b"\x03a=b\x01c", 1, ttl())));
    v.push(Entry::Ns(txt(&nm[6], &[0xC0, 0x0C, 0xFF], 0x8001, ttl())));
    // A / AAAA
    let a = |o: &str, cl: u16, ttl: u32| {
        wire::Rec::new(o, cl, ttl, wire::RData::A("10.1.2.3".parse().unwrap()))
    };
    v.push(Entry::An(a(&nm[1], 0x8001, ttl())));
    v.push(Entry::Ns(a(&nm[9], 1, ttl())));
    v.push(Entry::Ar(a(&nm[4], 0x8001, ttl())));
    v.push(Entry::Ar(wire::Rec::new(
        &nm[3],
        0x8001,
        ttl(),
        wire::RData::Aaaa("fe80::1:2".parse().unwrap()),
    )));
    v.push(Entry::An(wire::Rec::new(
        &nm[7],
        1,
        ttl(),
        wire::RData::Aaaa("2001:db8::1".parse().unwrap()),
    )));
    v
}

struct Expect {
    q: Vec<Question>,
    an: Vec<Record>,
    ns: Vec<Record>,
    ar: Vec<Record>,
}

fn build(flags: u16, entries: &[&Entry]) -> (wire::Out, Expect) {
    let mut out = wire::Out::new(flags);
    let mut ex = Expect {
        q: vec![],
        an: vec![],
        ns: vec![],
        ar: vec![],
    };
    for e in entries {
        match e {
            Entry::Q(nm, ty) => {
                out.add_question(nm, *ty);
                ex.q.push(Question {
                    name: labels_of(nm),
                    qtype: *ty,
                    qclass: C_IN,
                });
            }
            Entry::An(r) => {
                out.add_answer(r);
                ex.an.push(expected_record(r));
            }
            Entry::Ns(r) => {
                out.add_authority(r);
                ex.ns.push(expected_record(r));
            }
            Entry::Ar(r) => {
                out.add_additional(r);
                ex.ar.push(expected_record(r));
            }
        }
    }
    (out, ex)
}

/// True if `got` is a subsequence of `want` (records left out whole are allowed when `may_drop`).
fn subseq<T: PartialEq>(got: &[T], want: &[T]) -> bool {
    let mut i = 0;
    for w in want {
        if i < got.len() && got[i] == *w {
            i += 1;
        }
    }
    i == got.len()
}

fn crate_agrees(pkt: &[u8], im: &Msg) -> Result<(), String> {
    let cm = wire::decode(pkt).map_err(|e| format!("crate decoder rejects its own packet: {e}"))?;
    let is_resp = im.is_response();
    let secs: [(&Vec<wire::Rec>, &Vec<Record>); 3] = [
        (&cm.answers, &im.answers),
        (&cm.authorities, &im.authorities),
        (&cm.additionals, &im.additionals),
    ];
    if cm.questions.len() != im.questions.len() {
        return Err("crate decoder reads a different number of questions".into());
    }
    for (c, i) in cm.questions.iter().zip(im.questions.iter()) {
        if c.name != dotted(&i.name) || c.ty != i.qtype {
            return Err(format!(
                "crate decoder reads question {:?}, wire has {}",
                c.name,
                show_name(&i.name)
            ));
        }
    }
    for (cv, iv) in secs {
        if cv.len() != iv.len() {
            return Err("crate decoder reads a different number of records".into());
        }
        for (c, i) in cv.iter().zip(iv.iter()) {
            let ttl = if i.ttl == 0 && is_resp { 1 } else { i.ttl };
            let rd_ok = match (&c.rdata, &i.rd) {
                (wire::RData::A(a), RD::A(b)) => a.octets() == *b,
                (wire::RData::Aaaa(a), RD::Aaaa(b)) => a.octets() == *b,
                (wire::RData::Ptr(a), RD::Ptr(b)) => *a == dotted(b),
                (wire::RData::Srv { host, port, .. }, RD::Srv { target, port: p2, .. }) => {
                    *host == dotted(target) && port == p2
                }
                (wire::RData::Txt(a), RD::Txt(b)) => a == b,
                _ => false,
            };
            if c.name != dotted(&i.name) || c.ty != i.rtype || c.ttl != ttl || !rd_ok {
                return Err(format!(
                    "crate decoder reads {:?}, wire has {}",
                    c,
                    i.summary()
                ));
            }
        }
    }
    Ok(())
}

/// Encodes and applies every oracle clause. `exact`: nothing may be left out.
fn check_message(flags: u16, entries: &[&Entry], exact: bool, res: &mut CaseResult) {
    let (out, ex) = build(flags, entries);
    let pk = match catch_unwind(AssertUnwindSafe(|| out.to_packets())) {
        Ok(p) => p,
        Err(_) => {
            let p = take_panic().unwrap_or_default();
            res.viols
                .push(viol(format!("C02|encoder-panic|{}", panic_sig(&p)), p));
            return;
        }
    };
    res.transitions += 1;
    res.count("packets", pk.len() as u64);
    let mut got = Expect {
        q: vec![],
        an: vec![],
        ns: vec![],
        ar: vec![],
    };
    let mut shape = format!("{}:", pk.len());
    for (k, p) in pk.iter().enumerate() {
        if p.len() > 8972 {
            res.viols.push(viol(
                "C02|packet-larger-than-8972",
                format!("{} bytes", p.len()),
            ));
        }
        let im = match indep::parse(p) {
            Ok(m) => m,
            Err(e) => {
                res.viols.push(viol(
                    "C02|undecodable-by-independent-parser",
                    format!("{e}; packet {} of {} = {}", k, pk.len(), truncate(&hex(p), 300)),
                ));
                return;
            }
        };
        match indep::parsed_len(p) {
            Ok(l) if l == p.len() => {}
            other => res.viols.push(viol(
                "C02|header-counts-do-not-cover-packet",
                format!("parsed {:?} of {} bytes", other, p.len()),
            )),
        }
        if pk.len() > 1 {
            res.count("multi_packet", 1);
            let tc = im.flags & F_TC != 0;
            if k + 1 < pk.len() && !tc {
                res.viols.push(viol(
                    "C02|missing-TC-on-non-final-packet",
                    format!("packet {k} of {}", pk.len()),
                ));
            }
        }
        if let Err(e) = crate_agrees(p, &im) {
            res.viols.push(viol(
                "C02|crate-decoder-disagrees-with-wire",
                format!("{e}; packet {}", truncate(&hex(p), 300)),
            ));
        }
        shape.push_str(&format!(
            "{}/{}/{}/{},",
            im.questions.len(),
            im.answers.len(),
            im.authorities.len(),
            im.additionals.len()
        ));
        got.q.extend(im.questions);
        got.an.extend(im.answers);
        got.ns.extend(im.authorities);
        got.ar.extend(im.additionals);
    }
    fn short(r: &Record) -> String {
        truncate(&r.summary(), 160)
    }
    fn first_diff(got: &[Record], want: &[Record], exact: bool) -> Option<String> {
        if exact {
            if got == want {
                return None;
            }
            for i in 0..got.len().max(want.len()) {
                if got.get(i) != want.get(i) {
                    return Some(format!(
                        "entry {i}: added {:?}, read back {:?}",
                        want.get(i).map(short),
                        got.get(i).map(short)
                    ));
                }
            }
            None
        } else {
            let mut i = 0;
            for w in want {
                if i < got.len() && got[i] == *w {
                    i += 1;
                }
            }
            if i == got.len() {
                None
            } else {
                Some(format!(
                    "read-back entry {i} = {} is not among the added records (in order); added were {:?}",
                    short(&got[i]),
                    want.iter().map(short).collect::<Vec<_>>()
                ))
            }
        }
    }
    let word = if exact { "readback-differs" } else { "readback-not-a-subsequence" };
    if exact && got.q != ex.q || !exact && !subseq(&got.q, &ex.q) {
        res.viols.push(viol(
            format!("C02|{word}|questions"),
            format!(
                "added {:?} read back {:?}",
                ex.q.iter().map(|q| show_name(&q.name)).collect::<Vec<_>>(),
                got.q.iter().map(|q| show_name(&q.name)).collect::<Vec<_>>()
            ),
        ));
    }
    for (name, g, e) in [
        ("answers", &got.an, &ex.an),
        ("authorities", &got.ns, &ex.ns),
        ("additionals", &got.ar, &ex.ar),
    ] {
        if let Some(d) = first_diff(g, e, exact) {
            res.viols
                .push(viol(format!("C02|{word}|{name}"), truncate(&d, 1500)));
        }
    }
    res.outcome = crate::sim::fnv128(shape.as_bytes());
}

fn seq_of(menu_len: u64, max_k: usize, mut idx: u64) -> Vec<usize> {
    let mut len = 0usize;
    let mut block = 1u64;
    while idx >= block {
        idx -= block;
        block *= menu_len;
        len += 1;
        assert!(len <= max_k);
    }
    let mut v = vec![];
    for _ in 0..len {
        v.push((idx % menu_len) as usize);
        idx /= menu_len;
    }
    v
}

fn count_seqs(m: u64, k: usize) -> u64 {
    let mut n = 0;
    let mut b = 1;
    for _ in 0..=k {
        n += b;
        b *= m;
    }
    n
}

pub fn check(tier: &str) -> i32 {
    let mut rep = Report::new("C02", tier, "exploration");
    rep.case_limit = Duration::from_secs(30);
    let thorough = rep.thorough();
    rep.assume("names are given to the encoder in the crate's escaped dotted form (RFC 6763 4.3: '\\.' and '\\\\'); what 'was added' is the label sequence an independent unescaper derives from that string");
    let menu = entry_menu();
    let m = menu.len() as u64;
    let k = if thorough { 5 } else { 3 };
    let per = count_seqs(m, k);

    let m1 = FnPart {
        name: "M1-all-small-messages".into(),
        rule: format!("every sequence of <= {k} entries from a menu of {m} questions/records built to collide in the compression table, as query and as response; all must read back exactly"),
        n: per * 2,
        describe: Box::new(|i| {
            let s = seq_of(m, k, i % per);
            format!(
                "flags={} entries={:?}",
                if i / per == 0 { "query" } else { "response" },
                s.iter().map(|&j| &menu[j]).collect::<Vec<_>>()
            )
        }),
        run: Box::new(|i, _| {
            let mut r = CaseResult {
                nontrivial: true,
                ..Default::default()
            };
            let s = seq_of(m, k, i % per);
            let es: Vec<&Entry> = s.iter().map(|&j| &menu[j]).collect();
            check_message(if i / per == 0 { 0 } else { 0x8400 }, &es, true, &mut r);
            r
        }),
    };
    rep.run_part(&m1, Duration::from_secs(if thorough { 900 } else { 40 }));

    // M0: the header fields of a record, type by type: every record type x class field x TTL x section
    let nm0 = name_menu();
    let rdatas: Vec<wire::RData> = vec![
        wire::RData::A("10.1.2.3".parse().unwrap()),
        wire::RData::Aaaa("fe80::1:2".parse().unwrap()),
        wire::RData::Ptr(nm0[2].clone()),
        wire::RData::Srv { priority: 1, weight: 2, port: 8080, host: nm0[4].clone() },
        wire::RData::Txt(vec![0]),
        wire::RData::Txt(b"\x03a=b".to_vec()),
    ];
    // (NSEC and HINFO, which the crate only ever receives, are outside the property: its encoder
    // writes their RDATA strings without length bytes / as dotted text - noted in DESIGN.md, not judged)
    const CLASSES: [u16; 4] = [0x0001, 0x8001, 0x00FF, 0x80FF];
    const TTL0: [u32; 4] = [0, 1, 4500, u32::MAX];
    let fdims = [rdatas.len() as u64, CLASSES.len() as u64, TTL0.len() as u64, 3, 2, 2];
    let mk = move |x: &[u64]| -> (u16, Vec<Entry>) {
        let rec = wire::Rec::new(&nm0[1], CLASSES[x[1] as usize], TTL0[x[2] as usize], rdatas[x[0] as usize].clone());
        let e = match x[3] {
            0 => Entry::An(rec),
            1 => Entry::Ns(rec),
            _ => Entry::Ar(rec),
        };
        // alone, or behind a question for the same name (so that the owner is a pointer)
        let mut es = vec![];
        if x[5] == 1 {
            es.push(Entry::Q(nm0[1].clone(), 255));
        }
        es.push(e);
        (if x[4] == 0 { 0 } else { 0x8400 }, es)
    };
    let mk2 = mk.clone();
    let m0 = FnPart {
        name: "M0-record-header-fields".into(),
        rule: "every record type of the property (A, AAAA, PTR, SRV, TXT x2) x class field {IN, IN+cache-flush, 255, 255+cache-flush} x TTL {0, 1, 4500, 2^32-1} x section x query/response x (alone | behind a question for the same name); type, class, cache-flush bit, TTL and RDATA must read back exactly".into(),
        n: product(&fdims),
        describe: Box::new(move |i| format!("{:?}", mk2(&unrank(i, &fdims)))),
        run: Box::new(move |i, _| {
            let mut r = CaseResult { nontrivial: true, ..Default::default() };
            let (flags, es) = mk(&unrank(i, &fdims));
            let refs: Vec<&Entry> = es.iter().collect();
            check_message(flags, &refs, true, &mut r);
            r
        }),
    };
    rep.run_part(&m0, Duration::from_secs(60));

    // M4: name shapes in every role: literal dots and backslashes at the start, in the middle and at
    // the END of a label, also of the LAST label (so that the escaped dot meets the root dot)
    let mut shapes = name_menu();
    for s in [
        "corp\\..",
        "printer.Bldg 2\\..",
        "a.b\\..local.",
        "x\\\\.",
        "x\\\\\\..",
        "\\.a.local.",
        "\\..local.",
        "a\\.\\.b.local.",
    ] {
        shapes.push(s.to_string());
    }
    let ns = shapes.len() as u64;
    let role = move |name: &str, r: u64| -> Entry {
        match r {
            0 => Entry::Q(name.to_string(), 255),
            1 => Entry::An(wire::Rec::new(name, 1, 4500, wire::RData::Ptr("t.local.".into()))),
            2 => Entry::An(wire::Rec::new("o.local.", 1, 4500, wire::RData::Ptr(name.to_string()))),
            _ => Entry::Ar(wire::Rec::new(
                "o.local.",
                0x8001,
                120,
                wire::RData::Srv { priority: 0, weight: 0, port: 80, host: name.to_string() },
            )),
        }
    };
    // x = [shape a, role a, second entry? (0 = none, 1 + shape b * 4 + role b), query/response]
    let sdims = [ns, 4, 1 + ns * 4, 2];
    let shapes2 = shapes.clone();
    let mk4 = move |x: &[u64]| -> (u16, Vec<Entry>) {
        let mut es = vec![role(&shapes2[x[0] as usize], x[1])];
        if x[2] > 0 {
            let y = x[2] - 1;
            es.push(role(&shapes2[(y / 4) as usize], y % 4));
        }
        (if x[3] == 0 { 0 } else { 0x8400 }, es)
    };
    let mk4b = mk4.clone();
    let mk4c = mk4.clone();
    let m4 = FnPart {
        name: "M4-name-shapes-in-every-role".into(),
        rule: format!("{ns} names (the menu's plus literal dots / backslashes at the start, middle and end of a label, including the last label before the root dot) x role {{question, PTR owner, PTR target, SRV target}}, alone and followed by every second (name, role), as query and as response; all must read back exactly"),
        n: product(&sdims),
        describe: Box::new(move |i| format!("{:?}", mk4b(&unrank(i, &sdims)))),
        run: Box::new(move |i, _| {
            let mut r = CaseResult { nontrivial: true, ..Default::default() };
            let (flags, es) = mk4(&unrank(i, &sdims));
            let refs: Vec<&Entry> = es.iter().collect();
            check_message(flags, &refs, true, &mut r);
            r
        }),
    };
    rep.run_part(&m4, Duration::from_secs(60));
    if thorough {
        // the same (name, role) alphabet in every sequence of up to three entries
        let alpha: Vec<Entry> = (0..ns * 4)
            .map(|j| mk4c(&[j / 4, j % 4, 0, 0]).1.remove(0))
            .collect();
        let am = alpha.len() as u64;
        let per5 = count_seqs(am, 3);
        let alpha2 = alpha.clone();
        let m5 = FnPart {
            name: "M5-name-shapes-up-to-three-entries".into(),
            rule: format!("every sequence of <= 3 entries from the {am} (name shape, role) entries of M4, as query and as response; all must read back exactly"),
            n: per5 * 2,
            describe: Box::new(move |i| {
                format!("flags={} entries={:?}", i / per5, seq_of(am, 3, i % per5).iter().map(|&j| &alpha2[j]).collect::<Vec<_>>())
            }),
            run: Box::new(move |i, _| {
                let mut r = CaseResult { nontrivial: true, ..Default::default() };
                let s = seq_of(am, 3, i % per5);
                let es: Vec<&Entry> = s.iter().map(|&j| &alpha[j]).collect();
                check_message(if i / per5 == 0 { 0 } else { 0x8400 }, &es, true, &mut r);
                r
            }),
        };
        rep.run_part(&m5, Duration::from_secs(300));
    }

    // M2: overflow window
    let tails: Vec<Entry> = menu
        .iter()
        .filter(|e| !matches!(e, Entry::Q(..)))
        .cloned()
        .collect();
    let t = tails.len() as u64;
    let tail_count = if thorough { 1 + t + t * t } else { 1 + t + t * 4 };
    let lo = 8972 - 400;
    let sizes = 801u64;
    let filler = |sz: usize, sec: u64| -> Entry {
        // TXT record with owner "f.local." whose total encoded packet size lands on `sz`
        let overhead = 12 + 9 + 10; // header + name "f.local." + fixed RR part
        let rec = wire::Rec::new(
            "f.local.",
            1,
            4500,
            wire::RData::Txt(vec![b'x'; sz.saturating_sub(overhead)]),
        );
        match sec {
            0 => Entry::An(rec),
            _ => Entry::Ar(rec),
        }
    };
    let m2_case = |i: u64| -> (u16, Vec<Entry>) {
        let x = unrank(i, &[sizes, tail_count, 3]);
        let sz = lo + x[0] as usize;
        let (flags, sec) = match x[2] {
            0 => (0x8400u16, 0u64),
            1 => (0u16, 0),
            _ => (0u16, 1),
        };
        let mut es = vec![filler(sz, sec)];
        let j = x[1];
        if j >= 1 && j <= t {
            es.push(tails[(j - 1) as usize].clone());
        } else if j > t {
            let jj = j - 1 - t;
            let (a, b) = if thorough {
                (jj / t, jj % t)
            } else {
                (jj / 4, [0usize, 3, 9, 13][(jj % 4) as usize] as u64 % t)
            };
            es.push(tails[a as usize].clone());
            es.push(tails[b as usize].clone());
        }
        (flags, es)
    };
    let m2 = FnPart {
        name: "M2-overflow-window".into(),
        rule: "a filler TXT record of every size that puts the packet within 400 bytes either side of 8972, followed by every menu tail of <= 2 records; as response, as query with the filler in the answer section, and as query with the filler as additional (TC continuation)".into(),
        n: sizes * tail_count * 3,
        describe: Box::new(|i| {
            let (f, es) = m2_case(i);
            let x = unrank(i, &[sizes, tail_count, 3]);
            format!("flags={f:#x} filler-size={} tail={:?}", lo + x[0] as usize, &es[1..])
        }),
        run: Box::new(|i, _| {
            let mut r = CaseResult {
                nontrivial: true,
                ..Default::default()
            };
            let (f, es) = m2_case(i);
            let refs: Vec<&Entry> = es.iter().collect();
            check_message(f, &refs, false, &mut r);
            r
        }),
    };
    rep.run_part(&m2, Duration::from_secs(if thorough { 1200 } else { 45 }));

    // M3: several times the limit
    let m3_case = |i: u64| -> (u16, Vec<Entry>) {
        let x = unrank(i, &[3, 3, t]);
        let target = [8972usize, 2 * 8972, 31402][x[0] as usize];
        let flags = if x[1] == 0 { 0x8400 } else { 0 };
        let mut es = vec![];
        let mut approx = 12;
        let mut j = x[2] as usize;
        let mut n = 0;
        while approx < target {
            let mut e = tails[j % tails.len()].clone();
            // make owners distinct so that not everything compresses away
            let bump = |r: &mut wire::Rec| {
                r.name = format!("n{n}.{}", r.name);
            };
            match &mut e {
                Entry::An(r) | Entry::Ns(r) | Entry::Ar(r) => bump(r),
                _ => {}
            }
            if x[1] == 2 {
                if let Entry::An(r) | Entry::Ns(r) = &e {
                    e = Entry::Ar(r.clone());
                }
            }
            approx += 40;
            es.push(e);
            j += 1;
            n += 1;
        }
        (flags, es)
    };
    let m3 = FnPart {
        name: "M3-multiples-of-the-limit".into(),
        rule: "messages of about 1x, 2x and 3.5x the packet limit made of menu records with distinct owners; response / query / query with everything in the additional section".into(),
        n: 3 * 3 * t,
        describe: Box::new(|i| {
            let (f, es) = m3_case(i);
            format!("flags={f:#x} {} entries starting {:?}", es.len(), es.first())
        }),
        run: Box::new(|i, _| {
            let mut r = CaseResult {
                nontrivial: true,
                ..Default::default()
            };
            let (f, es) = m3_case(i);
            let refs: Vec<&Entry> = es.iter().collect();
            check_message(f, &refs, false, &mut r);
            r
        }),
    };
    rep.run_part(&m3, Duration::from_secs(120));
    rep.require("M2-overflow-window", "multi_packet");
    rep.finish()
}
