//! C06 — queries get exactly the registered records, right values, right link (Engine S).
use crate::fw::*;
use crate::indep::*;
use crate::scn::*;
use crate::sim::*;
use mdns_sd::verif::SimIntf;
use std::collections::BTreeMap;
use std::net::{IpAddr, SocketAddr};
use std::time::Duration;

/// Reference responder entry: the values of the most recent `register` call.
#[derive(Clone, Debug)]
pub struct RefSvc {
    pub ty: Name,
    pub sub: Option<Name>,
    pub inst: Name,
    pub host: Name,
    pub port: u16,
    pub txt: Vec<u8>,
    pub addrs: Vec<IpAddr>,
    pub announced: bool,
}

fn in_subnet(ip: &IpAddr, i: &SimIntf) -> bool {
    match (ip, &i.ip) {
        (IpAddr::V4(a), IpAddr::V4(b)) => {
            let m = if i.prefix == 0 { 0 } else { u32::MAX << (32 - i.prefix as u32) };
            u32::from(*a) & m == u32::from(*b) & m
        }
        (IpAddr::V6(a), IpAddr::V6(b)) => {
            let m = if i.prefix == 0 { 0 } else { u128::MAX << (128 - i.prefix as u32) };
            u128::from(*a) & m == u128::from(*b) & m
        }
        _ => false,
    }
}

impl RefSvc {
    /// Addresses of this service that lie in a subnet of interface `ifi`.
    pub fn addrs_on(&self, intfs: &[SimIntf], ifi: u32) -> Vec<IpAddr> {
        self.addrs
            .iter()
            .filter(|a| intfs.iter().any(|i| i.index == ifi && in_subnet(a, i)))
            .copied()
            .collect()
    }
    pub fn addr_records(&self, intfs: &[SimIntf], ifi: u32) -> Vec<Record> {
        self.addrs_on(intfs, ifi)
            .iter()
            .map(|ip| match ip {
                IpAddr::V4(v) => a(&self.host, v.octets(), 120),
                IpAddr::V6(v) => aaaa(&self.host, *v, 120),
            })
            .collect()
    }
}

const META: &str = "_services._dns-sd._udp.local";

/// Canonical (case-folded) identity of a record for set comparison.
fn canon(r: &Record) -> Record {
    let mut c = r.clone();
    c.name = lower(&c.name);
    c.rd = match c.rd {
        RD::Ptr(t) => RD::Ptr(lower(&t)),
        RD::Srv { priority, weight, port, target } => RD::Srv { priority, weight, port, target: lower(&target) },
        other => other,
    };
    c
}

#[derive(Clone, Debug)]
struct Q {
    name: Name,
    qtype: u16,
    /// true if name case differs from the registered one (type names: completeness not demanded)
    odd_case: bool,
}

/// What one question allows and requires, given the reference responder.
fn expect(q: &Q, svcs: &[RefSvc], intfs: &[SimIntf], ifi: u32, transport_v4: bool) -> (Vec<Record>, Vec<Record>, bool) {
    // returns (required, allowed_extra, completeness_demanded)
    let mut req = vec![];
    let mut extra = vec![];
    let mut demand = true;
    for s in svcs.iter().filter(|s| s.announced) {
        let on_link = s.addr_records(intfs, ifi);
        if on_link.is_empty() {
            continue; // no address on that link: nothing is sent
        }
        let fam: Vec<Record> = on_link
            .iter()
            .filter(|r| (r.rtype == T_A) == transport_v4)
            .cloned()
            .collect();
        let srv_r = srv(&s.inst, &s.host, s.port, 120);
        let txt_r = txt(&s.inst, &s.txt, 4500);
        let exact_ty = q.name == s.ty;
        let exact_sub = s.sub.as_ref() == Some(&q.name);
        let ci_ty = name_eq_ci(&q.name, &s.ty);
        let ci_sub = s.sub.as_ref().is_some_and(|x| name_eq_ci(&q.name, x));
        if q.qtype == T_PTR && (ci_ty || ci_sub) {
            let mut set = vec![ptr(&s.ty, &s.inst, 4500), srv_r.clone(), txt_r.clone()];
            if let Some(sub) = &s.sub {
                if ci_sub {
                    set.push(ptr(sub, &s.inst, 4500));
                } else {
                    extra.push(ptr(sub, &s.inst, 4500));
                }
            }
            if ci_sub && !ci_ty {
                // a subtype question: the plain type PTR may come along, it is a true record
                extra.push(set.remove(0));
            }
            set.extend(fam.clone());
            extra.extend(on_link.clone());
            if fam.is_empty() || !(exact_ty || exact_sub) {
                // other-family don't-care / type names in another letter case: soundness only
                extra.extend(set);
                if !(exact_ty || exact_sub) {
                    demand = false;
                }
            } else {
                req.extend(set);
            }
        }
        if q.qtype == T_PTR && name_eq_ci(&q.name, &n(META)) {
            let r = ptr(&n(META), &s.ty, 4500);
            if q.name == n(META) {
                req.push(r);
            } else {
                extra.push(r);
                demand = false;
            }
        }
        if name_eq_ci(&q.name, &s.inst) && q.qtype != T_PTR {
            let mut set = vec![];
            if q.qtype == T_SRV || q.qtype == T_ANY {
                set.push(srv_r.clone());
            }
            if q.qtype == T_TXT || q.qtype == T_ANY {
                set.push(txt_r.clone());
            }
            extra.extend(on_link.clone());
            if fam.is_empty() {
                extra.extend(set);
            } else {
                req.extend(set);
            }
        }
        if name_eq_ci(&q.name, &s.host) && q.qtype != T_PTR {
            for r in &on_link {
                if q.qtype == T_ANY || q.qtype == r.rtype {
                    req.push(r.clone());
                }
            }
        }
    }
    let _ = q.odd_case;
    (req, extra, demand)
}

fn question_menu(svcs: &[RefSvc], extra_names: &[Name]) -> Vec<Q> {
    let mut names: Vec<(Name, bool)> = vec![];
    let up = |nm: &Name| -> Name {
        let mut v = nm.clone();
        v[0] = v[0].to_ascii_uppercase();
        v
    };
    let mut push = |nm: Name| {
        names.push((up(&nm), true));
        names.push((nm, false));
    };
    push(n("_t._tcp.local"));
    push(n("_s._sub._t._tcp.local"));
    push(n("_u._udp.local"));
    // subtype questions nobody may answer: a subtype of the type whose service has none, and
    // another subtype of the type whose service has one
    push(n("_s._sub._u._udp.local"));
    push(n("_x._sub._t._tcp.local"));
    push(n(META));
    push(n("one._t._tcp.local"));
    push(n("two._u._udp.local"));
    push(n("host.local"));
    push(n("other.local"));
    let base: Vec<Name> = ["_t._tcp.local", "_s._sub._t._tcp.local", "_u._udp.local", "_s._sub._u._udp.local", "_x._sub._t._tcp.local", META, "one._t._tcp.local", "two._u._udp.local", "host.local", "other.local"].iter().map(|x| n(x)).collect();
    let mut seen: Vec<Name> = base;
    for e in extra_names {
        if !seen.contains(e) {
            seen.push(e.clone());
            push(e.clone());
        }
    }
    let _ = svcs;
    let mut v = vec![];
    let nobody: [Name; 2] = [n("_s._sub._u._udp.local"), n("_x._sub._t._tcp.local")];
    for (nm, odd) in names {
        // (the subtype names nobody owns: the two question types a subtype name is asked with)
        let only_ptr_any = nobody.iter().any(|x| name_eq_ci(x, &nm));
        for qt in [T_PTR, T_SRV, T_TXT, T_ANY, T_A, T_AAAA, T_NSEC] {
            if only_ptr_any && qt != T_PTR && qt != T_ANY {
                continue;
            }
            v.push(Q { name: nm.clone(), qtype: qt, odd_case: odd });
        }
    }
    v
}

#[derive(Clone, Copy, Debug, PartialEq)]
enum Op {
    Reg1,
    Reg1b,
    Reg2,
    Unreg1,
    Unreg2,
}
const OPS: [Op; 5] = [Op::Reg1, Op::Reg1b, Op::Reg2, Op::Unreg1, Op::Unreg2];

fn layouts() -> Vec<(&'static str, Vec<SimIntf>)> {
    vec![
        ("v4", lay_v4()),
        ("dual", lay_dual()),
        ("two-subnets", lay_two_dual()),
        ("dual-multicast-loop", lay_dual()),
    ]
}

fn ips_for(intfs: &[SimIntf]) -> (String, Vec<IpAddr>) {
    // one service address per subnet/family; on two-subnet layouts the service lives on the first
    // subnet only (v4) plus the v6 subnet of the second interface
    // (two addresses of the same family in the first subnet)
    let mut v: Vec<IpAddr> = vec!["10.0.0.5".parse().unwrap(), "10.0.0.6".parse().unwrap()];
    if intfs.iter().any(|i| i.ip.is_ipv6() && i.index == IF0) {
        v.push("fd00::5".parse().unwrap());
    }
    if intfs.iter().any(|i| i.ip.is_ipv6() && i.index == IF1) {
        v.push("fd00:1::5".parse().unwrap());
    }
    (v.iter().map(|a| a.to_string()).collect::<Vec<_>>().join(","), v)
}

/// `rename`: bit 0 = a scripted peer claims the instance name of the first registration while it is
/// being probed (SRV+TXT with other data), bit 1 = it claims the host name (A and AAAA with other
/// data); the claim is made on every interface.  The names the daemon ends up with are read from its
/// own last announcement per interface (whether the renaming itself is right is C08's business); C06
/// demands that queries are answered under exactly those names and no longer under the old ones.
fn run_state(layout: usize, ops: &[Op], probing_extra: bool, pairs: bool, rename: u64, trace: bool) -> CaseResult {
    let mut res = CaseResult::default();
    let (_, intfs) = layouts().swap_remove(layout);
    let (ipstr, ipv) = ips_for(&intfs);
    let mut w = World::one(intfs.clone());
    w.trace = trace;
    w.loopback = w.loopback || layout == 3;
    w.ds[0].h.set_ip_check_interval(3600).unwrap();
    w.poke(0);
    let mut refs: BTreeMap<String, RefSvc> = BTreeMap::new();
    let mut injected = rename == 0;
    for op in ops {
        match op {
            Op::Reg1 | Op::Reg1b => {
                let (port, props): (u16, &[(&str, &str)]) = if *op == Op::Reg1 { (80, &[("k", "v")]) } else { (8080, &[("k", "w"), ("x", "")]) };
                // (host name registered with a capital letter; questions come in both spellings)
                let s = svc("_s._sub._t._tcp.local.", "one", "Host.local.", &ipstr, port, props);
                w.ds[0].h.register(s).unwrap();
                let txt = if *op == Op::Reg1 { txt_rdata(&[(b"k", Some(b"v"))]) } else { txt_rdata(&[(b"k", Some(b"w")), (b"x", Some(b""))]) };
                refs.insert("one._t._tcp.local.".into(), RefSvc { ty: n("_t._tcp.local"), sub: Some(n("_s._sub._t._tcp.local")), inst: n("one._t._tcp.local"), host: n("host.local"), port, txt, addrs: ipv.clone(), announced: true });
            }
            Op::Reg2 => {
                let s = svc("_u._udp.local.", "two", "Host.local.", &ipstr, 81, &[]);
                w.ds[0].h.register(s).unwrap();
                refs.insert("two._u._udp.local.".into(), RefSvc { ty: n("_u._udp.local"), sub: None, inst: n("two._u._udp.local"), host: n("host.local"), port: 81, txt: vec![0], addrs: ipv.clone(), announced: true });
            }
            Op::Unreg1 => {
                let r = w.ds[0].h.unregister("ONE._t._tcp.local.").unwrap();
                w.poke(0);
                let exp_ok = refs.remove("one._t._tcp.local.").is_some();
                let got = r.try_recv();
                let ok = matches!(got, Ok(mdns_sd::UnregisterStatus::OK));
                if ok != exp_ok {
                    res.viols.push(viol("C06|unregister-status-wrong", format!("expected ok={exp_ok} got {got:?}")));
                }
            }
            Op::Unreg2 => {
                let _ = w.ds[0].h.unregister("two._u._udp.local.").unwrap();
                refs.remove("two._u._udp.local.");
            }
        }
        w.poke(0);
        if !injected && matches!(op, Op::Reg1 | Op::Reg1b | Op::Reg2) {
            injected = true;
            w.advance(100);
            let inst = if *op == Op::Reg2 { n("two._u._udp.local") } else { n("one._t._tcp.local") };
            let host = n("Host.local");
            let ifs: Vec<u32> = { let mut v: Vec<u32> = intfs.iter().map(|i| i.index).collect(); v.sort(); v.dedup(); v };
            for ifi in ifs {
                let mut recs = vec![];
                if rename & 1 != 0 {
                    recs.push(srv(&inst, &n("elsewhere.local"), 9, 120));
                    recs.push(txt(&inst, &[1, b'z'], 4500));
                }
                if rename & 2 != 0 {
                    if ifi == IF0 {
                        recs.push(a(&host, [10, 0, 0, 200], 120));
                        recs.push(aaaa(&host, "fd00::200".parse().unwrap(), 120));
                    } else {
                        recs.push(a(&host, [10, 0, 1, 200], 120));
                        recs.push(aaaa(&host, "fd00:1::200".parse().unwrap(), 120));
                    }
                }
                let src = if ifi == IF0 { "10.0.0.200:5353" } else { "10.0.1.200:5353" };
                w.deliver(0, ifi, src, build(&response(recs)));
            }
        }
        w.advance(3000);
    }
    if probing_extra {
        // a third service still probing while the queries arrive
        let mut s = svc("_t._tcp.local.", "three", "host3.local.", &ipstr, 83, &[]);
        s.set_requires_probe(true);
        w.ds[0].h.register(s).unwrap();
        w.poke(0);
        w.advance(300);
        refs.insert("three._t._tcp.local.".into(), RefSvc { ty: n("_t._tcp.local"), sub: None, inst: n("three._t._tcp.local"), host: n("host3.local"), port: 83, txt: vec![0], addrs: ipv.clone(), announced: false });
    }
    // names in force per interface: those of the daemon's own last announcement there
    let mut extra_names: Vec<Name> = vec![];
    let mut per_if: BTreeMap<u32, Vec<RefSvc>> = BTreeMap::new();
    for i in &intfs {
        if per_if.contains_key(&i.index) {
            continue;
        }
        let mut v: Vec<RefSvc> = vec![];
        for s in refs.values() {
            let mut s = s.clone();
            let mut last: Option<(Name, Name)> = None;
            for (_, o) in outs(&w, 0, 0) {
                if o.if_index != Some(i.index) || !o.is_multicast() {
                    continue;
                }
                if let Ok(m) = &o.msg {
                    if !m.is_response() {
                        continue;
                    }
                    for r in m.all_records() {
                        if let RD::Srv { target, .. } = &r.rd {
                            if r.ttl > 0 && r.name.len() == s.inst.len() && name_eq_ci(&r.name[1..].to_vec(), &s.inst[1..].to_vec()) && r.name[0].to_ascii_lowercase().starts_with(&s.inst[0].to_ascii_lowercase()) {
                                last = Some((r.name.clone(), target.clone()));
                            }
                        }
                    }
                }
            }
            if let Some((inst, host)) = last {
                if !name_eq_ci(&inst, &s.inst) || !name_eq_ci(&host, &s.host) {
                    res.count("renamed_service_views", 1);
                    extra_names.push(lower(&inst));
                    extra_names.push(lower(&host));
                }
                s.inst = inst;
                s.host = host;
            }
            v.push(s);
        }
        per_if.insert(i.index, v);
    }
    if rename != 0 {
        extra_names.extend([n("one (2)._t._tcp.local"), n("two (2)._u._udp.local"), n("host-2.local")]);
    }
    let svcs: Vec<RefSvc> = refs.values().cloned().collect();
    let menu = question_menu(&svcs, &extra_names);
    // arrival points: (if_index, source address, v4 transport?)
    let mut arrivals: Vec<(u32, String, bool)> = vec![(IF0, "10.0.0.9".into(), true)];
    if intfs.iter().any(|i| i.index == IF0 && i.ip.is_ipv6()) {
        arrivals.push((IF0, "fd00::9".into(), false));
    }
    if intfs.iter().any(|i| i.index == IF1) {
        arrivals.push((IF1, "10.0.1.9".into(), true));
        arrivals.push((IF1, "fd00:1::9".into(), false));
    }
    let mut ask = |w: &mut World, qs: &[&Q], arr: &(u32, String, bool), port: u16, stale_known: bool, res: &mut CaseResult| {
        let mut m = query(qs.iter().map(|q| (q.name.clone(), q.qtype)).collect());
        m.id = 0x1234;
        if stale_known {
            // the querier lists every record it is about to get, with one second of life left: far
            // below half of any TTL of ours, so the response must be what it is without them
            for q in qs {
                let (r, _, _) = expect(q, &per_if[&arr.0], &intfs, arr.0, arr.2);
                for mut k in r {
                    k.ttl = 1;
                    k.flush = false;
                    m.answers.push(k);
                }
            }
            res.count("queries_with_stale_known_answers", 1);
        }
        let src: SocketAddr = SocketAddr::new(arr.1.parse().unwrap(), port);
        let from = w.log.len();
        w.deliver(0, arr.0, &src.to_string(), build(&m));
        res.transitions += 1;
        let sent: Vec<Out> = w.log[from..].iter().filter_map(|e| match &e.kind { Kind::Out(o) => Some(o.clone()), _ => None }).collect();
        let ctx = || format!("query {:?}{} from {}:{} on if {}", qs.iter().map(|q| format!("{} t{}", show_name(&q.name), q.qtype)).collect::<Vec<_>>(), if stale_known { " listing the expected records as known answers with TTL 1" } else { "" }, arr.1, port, arr.0);
        // expectation
        let mut req: Vec<Record> = vec![];
        let mut allowed: Vec<Record> = vec![];
        let mut demand = true;
        for q in qs {
            let (r, e, d) = expect(q, &per_if[&arr.0], &intfs, arr.0, arr.2);
            allowed.extend(r.iter().map(canon));
            allowed.extend(e.iter().map(canon));
            req.extend(r.iter().map(canon));
            demand &= d;
        }
        let legacy = port != 5353;
        if sent.len() > 1 {
            res.viols.push(viol("C06|more-than-one-datagram-for-one-query", format!("{} -> {} datagrams", ctx(), sent.len())));
        }
        if sent.is_empty() {
            if demand && !req.is_empty() {
                res.viols.push(viol(
                    format!("C06|no-response|{}", if legacy { "legacy" } else { "multicast" }),
                    format!("{}: required {:?}", ctx(), req.iter().map(|r| r.summary()).collect::<Vec<_>>()),
                ));
            }
            return;
        }
        res.count("responses_checked", 1);
        let o = &sent[0];
        let m = match &o.msg {
            Ok(m) => m,
            Err(e) => {
                res.viols.push(viol("C06|unparseable-response", format!("{}: {e}", ctx())));
                return;
            }
        };
        if legacy {
            res.count("legacy_responses_checked", 1);
            if o.dst != src {
                res.viols.push(viol("C06|legacy-reply-not-unicast-to-sender", format!("{}: sent to {}", ctx(), o.dst)));
            }
            if m.id != 0x1234 {
                res.viols.push(viol("C06|legacy-reply-id-not-echoed", format!("{}: reply id {:#x}", ctx(), m.id)));
            }
            let qe: Vec<(Name, u16)> = m.questions.iter().map(|q| (lower(&q.name), q.qtype)).collect();
            let qw: Vec<(Name, u16)> = qs.iter().map(|q| (lower(&q.name), q.qtype)).collect();
            if qe != qw {
                res.viols.push(viol("C06|legacy-reply-question-not-echoed", format!("{}: {}", ctx(), m.summary())));
            }
            if m.all_records().any(|r| r.flush) {
                res.viols.push(viol("C06|legacy-reply-has-cache-flush-bit", format!("{}: {}", ctx(), m.summary())));
            }
        } else {
            if !o.is_multicast() || o.dst.port() != 5353 {
                res.viols.push(viol("C06|reply-not-multicast", format!("{}: sent to {}", ctx(), o.dst)));
            }
            if o.if_index != Some(arr.0) {
                res.viols.push(viol("C06|reply-on-other-interface", format!("{}: left on {:?}", ctx(), o.if_index)));
            }
            if o.v4() != arr.2 {
                res.viols.push(viol("C06|reply-on-other-ip-family", format!("{}: sent to {}", ctx(), o.dst)));
            }
        }
        if !m.is_response() || m.authorities.len() > 0 {
            res.viols.push(viol("C06|reply-malformed", format!("{}: {}", ctx(), m.summary())));
        }
        // soundness: every record true, right TTL / flush, belongs to a matched service
        for r in m.all_records() {
            let mut c = canon(r);
            if legacy {
                // flush bit must be cleared in legacy replies; compare modulo the bit
                if let Some(a) = allowed.iter().find(|a| { let mut a2 = (*a).clone(); a2.flush = false; a2 == c }) {
                    c = a.clone();
                }
            }
            if !allowed.contains(&c) {
                // find out why, for the signature
                let mut why = "record-not-of-a-matching-registered-service";
                let mut c2 = c.clone();
                for a in &allowed {
                    c2.ttl = a.ttl;
                    c2.flush = a.flush;
                    if *a == c2 {
                        why = if a.ttl != c.ttl { "wrong-ttl" } else { "wrong-cache-flush-bit" };
                    }
                }
                res.viols.push(viol(format!("C06|unsound-record|{why}|type{}", r.rtype), format!("{}: {} in {}", ctx(), r.summary(), m.summary())));
            }
        }
        // completeness
        if demand {
            let present: Vec<Record> = m.all_records().map(|r| { let mut c = canon(r); if legacy { if let Some(a) = req.iter().find(|a| { let mut a2 = (*a).clone(); a2.flush = false; a2 == c }) { c = a.clone(); } } c }).collect();
            for r in &req {
                if !present.contains(r) {
                    res.viols.push(viol(format!("C06|required-record-missing|type{}", r.rtype), format!("{}: missing {} in {}", ctx(), r.summary(), m.summary())));
                }
            }
        }
    };
    for arr in &arrivals {
        for port in [5353u16, 40000] {
            for q in &menu {
                ask(&mut w, &[q], arr, port, false, &mut res);
                if arr == &arrivals[0] {
                    ask(&mut w, &[q], arr, port, true, &mut res);
                }
            }
        }
    }
    if pairs {
        let arr = arrivals[0].clone();
        for q1 in &menu {
            for q2 in &menu {
                ask(&mut w, &[q1, q2], &arr, 5353, false, &mut res);
            }
        }
    }
    if let Some(f) = daemon_fault(&w, 0) {
        res.viols.push(viol("C06|daemon-fault", f));
    }
    res.nontrivial = !svcs.is_empty();
    res.outcome = outcome_hash(&w.log);
    res.states = final_states(&w);
    res
}

fn seq_of(mut idx: u64, max: usize) -> Vec<Op> {
    let mut len = 0;
    let mut block = 1u64;
    while idx >= block {
        idx -= block;
        block *= OPS.len() as u64;
        len += 1;
        assert!(len <= max);
    }
    (0..len).map(|_| { let o = OPS[(idx % OPS.len() as u64) as usize]; idx /= OPS.len() as u64; o }).collect()
}

pub fn check(tier: &str) -> i32 {
    let mut rep = Report::new("C06", tier, "model_checking");
    let thorough = rep.thorough();
    rep.assume("queries do not change responder state, so one live daemon serves the whole query batch of a state");
    rep.assume("type and meta names asked in another letter case, and services whose only address on the arrival link is of the other IP family, are don't-cares for completeness (soundness still checked)");
    let depth = if thorough { 3 } else { 2 };
    let mut nseq = 0u64;
    let mut b = 1u64;
    for _ in 0..=depth {
        nseq += b;
        b *= OPS.len() as u64;
    }
    let dims = [nseq, 4, 2, 4];
    let part = FnPart {
        name: "states-x-queries".into(),
        rule: format!("every register / re-register / unregister sequence of depth <= {depth} over two services x 4 interface layouts (the fourth: dual-stack with the daemon hearing its own multicasts, as with the crate's default IP_MULTICAST_LOOP) x (all announced | a third service still probing) x (no conflict | the first registration's instance name, host name or both claimed by a scripted peer during probing, so the service is renamed); in each state every single question (16 names x 7 types) from port 5353 and 40000 on every interface and IP family (on the first arrival point also with the expected records listed as known answers with TTL 1, which must change nothing), and every ordered pair of questions (quick tier: pairs in the states without a rename only); after a rename both the old and the new names are asked; non-trivial = at least one service registered"),
        n: product(&dims),
        describe: Box::new(move |i| { let x = unrank(i, &dims); format!("layout {} ops {:?} probing_extra {} rename {}", layouts()[x[1] as usize].0, seq_of(x[0], depth), x[2] == 1, x[3]) }),
        run: Box::new(move |i, tr| { let x = unrank(i, &dims); run_state(x[1] as usize, &seq_of(x[0], depth), x[2] == 1, thorough || x[3] == 0, x[3], tr) }),
    };
    rep.run_part(&part, Duration::from_secs(if thorough { 3000 } else { 50 }));
    // one level deeper, single questions only, with and without a host rename (e.g. two services on
    // a renamed host, one of them unregistered)
    let d3 = depth + 1;
    let mut n3 = 0u64;
    let mut b = 1u64;
    for _ in 0..=d3 {
        n3 += b;
        b *= OPS.len() as u64;
    }
    let first3 = nseq; // sequences of exactly depth+1 events come after the shorter ones
    let dims3 = [n3 - first3, 4, 2];
    let deeper = FnPart {
        name: "deeper-sequences-single-questions".into(),
        rule: format!("every sequence of exactly {d3} events x 4 layouts x (no conflict | host name claimed by a scripted peer during the first probing); every single question (old and new names) from port 5353 and 40000 on every interface and IP family"),
        n: product(&dims3),
        describe: Box::new(move |i| { let x = unrank(i, &dims3); format!("layout {} ops {:?} rename {}", layouts()[x[1] as usize].0, seq_of(x[0] + first3, d3), x[2] * 2) }),
        run: Box::new(move |i, tr| { let x = unrank(i, &dims3); run_state(x[1] as usize, &seq_of(x[0] + first3, d3), false, false, x[2] * 2, tr) }),
    };
    rep.run_part(&deeper, Duration::from_secs(if thorough { 3000 } else { 50 }));
    rep.require("states-x-queries", "responses_checked");
    rep.require("states-x-queries", "legacy_responses_checked");
    rep.require("states-x-queries", "renamed_service_views");
    rep.finish()
}
