//! Reference record store: the statement of C03/C05/C11 written as code.
//!
//! A plain list of everything the explorer delivered to a daemon; liveness is derived by pure
//! functions. Shares no code and no data layout with the crate's cache.
use crate::indep::*;

#[derive(Clone, Debug)]
pub struct Delivered {
    pub t: u64,
    pub ifi: u32,
    pub rec: Record,
}

#[derive(Clone, Debug, Default)]
pub struct Store {
    pub v: Vec<Delivered>,
    /// verify requests: (time, instance, timeout ms, number of deliveries made before it)
    pub verifies: Vec<(u64, Name, u64, usize)>,
}

/// Identity of a cached copy: what makes a later record "the same record" (TTL refresh) rather
/// than a new one. Owner spelling and cache-flush bit are part of it (as in the crate).
fn ident(d: &Delivered) -> (Name, u16, bool, RD, u32) {
    let ifi = if d.rec.rtype == T_A || d.rec.rtype == T_AAAA { d.ifi } else { 0 };
    (d.rec.name.clone(), d.rec.rtype, d.rec.flush, d.rec.rd.clone(), ifi)
}

#[derive(Clone, Debug)]
pub struct LiveRec {
    pub rec: Record,
    pub ifi: u32,
    /// arrival of the latest copy
    pub since: u64,
    pub expiry: u64,
    /// TTL of the latest copy (0 = withdrawn by a goodbye, kept for one more second)
    pub last_ttl: u32,
}

impl Store {
    pub fn add(&mut self, t: u64, ifi: u32, recs: &[Record]) {
        for r in recs {
            self.v.push(Delivered { t, ifi, rec: r.clone() });
        }
    }

    /// Every distinct record with the expiry it has at time `t` (arrivals after `t` ignored).
    /// Expired ones are included (callers filter), so that "when did it lapse" can be asked.
    pub fn records_at(&self, t: u64) -> Vec<LiveRec> {
        self.records_at_limited(t, usize::MAX, usize::MAX)
    }

    /// Like `records_at`, but only the first `max_d` deliveries and `max_v` verifies exist.
    fn records_at_limited(&self, t: u64, max_d: usize, max_v: usize) -> Vec<LiveRec> {
        let mut out: Vec<LiveRec> = vec![];
        let mut seen: Vec<(Name, u16, bool, RD, u32)> = vec![];
        // deliveries in arrival order (the list is appended in that order)
        let upto: Vec<&Delivered> = self.v.iter().take(max_d).filter(|d| d.t <= t).collect();
        for d in &upto {
            let id = ident(d);
            if seen.contains(&id) {
                continue;
            }
            seen.push(id.clone());
            let mut since = d.t;
            let mut expiry = d.t;
            let mut last_ttl = d.rec.ttl;
            let mut pending_verifies: Vec<(usize, &(u64, Name, u64, usize))> = self.verifies.iter().enumerate().take(max_v).filter(|(_, v)| v.0 <= t).collect();
            for (k, x) in upto.iter().enumerate() {
                // verify requests issued before this delivery: an unanswered verify cuts the
                // lifetime of the instance's SRV records and of the addresses of their targets
                while let Some((vi, v)) = pending_verifies.first().copied() {
                    if v.3 > k {
                        break;
                    }
                    pending_verifies.remove(0);
                    if expiry > v.0 && v.0 >= since && self.verify_covers(vi, v, &d.rec) {
                        expiry = expiry.min(v.0 + v.2);
                    }
                }
                if ident(x) == id {
                    // a copy (re)starts the lifetime from its own TTL
                    since = x.t;
                    expiry = x.t + x.rec.ttl.max(1) as u64 * 1000;
                    last_ttl = x.rec.ttl;
                } else if x.t >= d.t
                    && x.rec.flush
                    && x.rec.rtype == d.rec.rtype
                    && x.rec.class == d.rec.class
                    && same_owner_for_flush(&x.rec, &d.rec)
                    && (!(d.rec.rtype == T_A || d.rec.rtype == T_AAAA) || x.ifi == d.ifi)
                    && x.t > since + 1000
                    && expiry > x.t + 1000
                {
                    // displaced by a cache-flush record that arrived more than 1 s after the copy
                    expiry = x.t + 1000;
                }
            }
            for (vi, v) in pending_verifies {
                if expiry > v.0 && v.0 >= since && self.verify_covers(vi, v, &d.rec) {
                    expiry = expiry.min(v.0 + v.2);
                }
            }
            out.push(LiveRec { rec: d.rec.clone(), ifi: d.ifi, since, expiry, last_ttl });
        }
        out
    }

    pub fn live_at(&self, t: u64) -> Vec<LiveRec> {
        self.records_at(t).into_iter().filter(|r| t < r.expiry).collect()
    }

    /// Does verify number `vi` shorten the life of `rec`? It covers the instance's SRV records
    /// that were live when it was issued, and the addresses of the hosts those SRVs point to.
    fn verify_covers(&self, vi: usize, v: &(u64, Name, u64, usize), rec: &Record) -> bool {
        let live_srvs: Vec<LiveRec> = self
            .records_at_limited(v.0, v.3, vi)
            .into_iter()
            .filter(|r| v.0 < r.expiry && r.rec.rtype == T_SRV && r.rec.name == v.1)
            .collect();
        if rec.rtype == T_SRV {
            return live_srvs.iter().any(|s| s.rec.name == rec.name && s.rec.rd == rec.rd && s.rec.flush == rec.flush);
        }
        if rec.rtype == T_A || rec.rtype == T_AAAA {
            return live_srvs.iter().any(|s| matches!(&s.rec.rd, RD::Srv { target, .. } if name_eq_ci(target, &rec.name)));
        }
        false
    }
}

/// The crate keys PTR/SRV/TXT by the exact owner spelling and addresses by the lower-cased one.
fn same_owner_for_flush(a: &Record, b: &Record) -> bool {
    if a.rtype == T_A || a.rtype == T_AAAA {
        name_eq_ci(&a.name, &b.name)
    } else {
        a.name == b.name
    }
}

/// What the store says about one instance at time t.
#[derive(Clone, Debug, Default)]
pub struct InstView {
    pub ptrs: Vec<LiveRec>,
    pub srvs: Vec<LiveRec>,
    pub txts: Vec<LiveRec>,
    /// live addresses of any live SRV's target
    pub addrs: Vec<LiveRec>,
}

impl InstView {
    pub fn complete(&self) -> bool {
        !self.ptrs.is_empty() && !self.srvs.is_empty() && !self.addrs.is_empty()
    }
}

/// `margin`: a record counts only if it has more than `margin` ms left (0 = plain liveness).
pub fn inst_view(store: &Store, ty: &Name, inst: &Name, t: u64, margin: u64) -> InstView {
    let live: Vec<LiveRec> = store.records_at(t).into_iter().filter(|r| t + margin < r.expiry).collect();
    let mut v = InstView::default();
    for r in &live {
        match &r.rec.rd {
            RD::Ptr(target) if r.rec.rtype == T_PTR && r.rec.name == *ty && target == inst => v.ptrs.push(r.clone()),
            RD::Srv { .. } if r.rec.name == *inst => v.srvs.push(r.clone()),
            RD::Txt(_) if r.rec.name == *inst => v.txts.push(r.clone()),
            _ => {}
        }
    }
    for s in &v.srvs {
        if let RD::Srv { target, .. } = &s.rec.rd {
            for r in &live {
                if (r.rec.rtype == T_A || r.rec.rtype == T_AAAA) && name_eq_ci(&r.rec.name, target) && !v.addrs.iter().any(|x: &LiveRec| x.rec == r.rec && x.ifi == r.ifi) {
                    v.addrs.push(r.clone());
                }
            }
        }
    }
    v
}
