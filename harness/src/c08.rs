//! C08 — name conflicts resolve to one winner and a consistent new name for the loser (L + S).
use crate::fw::*;
use crate::indep::*;
use crate::scn::*;
use crate::sim::*;
use mdns_sd::verif::{names, probe, wire};
use std::cmp::Ordering;
use std::collections::BTreeSet;
use std::panic::{catch_unwind, AssertUnwindSafe};
use std::time::Duration;

// ---------------------------------------------------------------- L1: the comparison

const PNAME: &str = "x.local.";

fn l_menu() -> Vec<(wire::Rec, Record)> {
    let nm = n("x.local");
    let mk = |r: Record| -> (wire::Rec, Record) {
        let w = match &r.rd {
            RD::A(a) => wire::Rec::new(PNAME, r.class, 120, wire::RData::A((*a).into())),
            RD::Aaaa(a) => wire::Rec::new(PNAME, r.class, 120, wire::RData::Aaaa((*a).into())),
            RD::Txt(t) => wire::Rec::new(PNAME, r.class, 120, wire::RData::Txt(t.clone())),
            RD::Srv { priority, weight, port, target } => wire::Rec::new(PNAME, r.class, 120, wire::RData::Srv { priority: *priority, weight: *weight, port: *port, host: dotted(target) }),
            _ => unreachable!(),
        };
        (w, r)
    };
    let s = |p: u16, w: u16, port: u16, t: &str| Record { name: nm.clone(), rtype: T_SRV, class: C_IN, flush: false, ttl: 120, rd: RD::Srv { priority: p, weight: w, port, target: n(t) } };
    let mut v = vec![
        mk(Record { name: nm.clone(), rtype: T_A, class: C_IN, flush: false, ttl: 120, rd: RD::A([10, 0, 0, 1]) }),
        mk(Record { name: nm.clone(), rtype: T_A, class: C_IN, flush: false, ttl: 120, rd: RD::A([10, 0, 0, 2]) }),
        mk(Record { name: nm.clone(), rtype: T_A, class: C_IN, flush: false, ttl: 120, rd: RD::A([11, 0, 0, 1]) }),
        mk(Record { name: nm.clone(), rtype: T_AAAA, class: C_IN, flush: false, ttl: 120, rd: RD::Aaaa("fd00::1".parse::<std::net::Ipv6Addr>().unwrap().octets()) }),
        mk(Record { name: nm.clone(), rtype: T_TXT, class: C_IN, flush: false, ttl: 120, rd: RD::Txt(vec![1, b'a']) }),
        mk(Record { name: nm.clone(), rtype: T_TXT, class: C_IN, flush: false, ttl: 120, rd: RD::Txt(vec![2, b'a', b'b']) }),
        mk(s(0, 0, 80, "hh.local")),
        mk(s(0, 0, 81, "hh.local")),
        mk(s(1, 0, 80, "hh.local")),
        mk(s(0, 1, 80, "hh.local")),
        mk(s(0, 0, 80, "hi.local")),
    ];
    // a record of another class
    let mut other = v[0].clone();
    other.0.class = 3;
    other.1.class = 3;
    v.push(other);
    v
}

/// RFC 6762 8.2.1: sort by class, type, raw rdata; compare pairwise; the longer list wins a tie.
fn rfc_order(x: &[Record], y: &[Record]) -> Ordering {
    let key = |r: &Record| (r.class, r.rtype, rdata_bytes(&r.rd));
    let mut a: Vec<_> = x.iter().map(key).collect();
    let mut b: Vec<_> = y.iter().map(key).collect();
    a.sort();
    b.sort();
    for (p, q) in a.iter().zip(b.iter()) {
        match p.cmp(q) {
            Ordering::Equal => continue,
            o => return o,
        }
    }
    a.len().cmp(&b.len())
}

fn subsets(m: usize, max: usize) -> Vec<Vec<usize>> {
    let mut out = vec![];
    for a in 0..m {
        out.push(vec![a]);
        if max >= 2 {
            for b in a + 1..m {
                out.push(vec![a, b]);
                if max >= 3 {
                    for c in b + 1..m {
                        out.push(vec![a, b, c]);
                    }
                }
            }
        }
    }
    out
}

/// Does a probe holding `mine` lose against a probe packet carrying `theirs` (in the given order)?
fn loses(mine: &[wire::Rec], theirs: &[Record]) -> Result<bool, String> {
    let mut q = query(vec![(n("x.local"), T_ANY)]);
    q.authorities = theirs.to_vec();
    let pkt = build(&q);
    match catch_unwind(AssertUnwindSafe(|| probe::tiebreak(mine, PNAME, T0, &pkt, T0 + 100))) {
        Ok(Ok(o)) => Ok(o.lost),
        Ok(Err(e)) => Err(format!("decode error {e}")),
        Err(_) => Err(format!("panic {}", take_panic().unwrap_or_default())),
    }
}

fn run_l1(xs: &[usize], ys: &[usize], reversed: bool, menu: &[(wire::Rec, Record)]) -> CaseResult {
    let mut res = CaseResult { nontrivial: true, transitions: 2, ..Default::default() };
    let xw: Vec<wire::Rec> = xs.iter().map(|i| menu[*i].0.clone()).collect();
    let yw: Vec<wire::Rec> = ys.iter().map(|i| menu[*i].0.clone()).collect();
    let mut xr: Vec<Record> = xs.iter().map(|i| menu[*i].1.clone()).collect();
    let mut yr: Vec<Record> = ys.iter().map(|i| menu[*i].1.clone()).collect();
    // wire order of the authority section: sorted as a probing mdns-sd sends it, or reversed
    let key = |r: &Record| (r.class, r.rtype, rdata_bytes(&r.rd));
    xr.sort_by_key(key);
    yr.sort_by_key(key);
    if reversed {
        xr.reverse();
        yr.reverse();
    }
    let (Ok(x_loses), Ok(y_loses)) = (loses(&xw, &yr), loses(&yw, &xr)) else {
        res.viols.push(viol("C08|L|tiebreak-error", format!("{:?} / {:?}", loses(&xw, &yr), loses(&yw, &xr))));
        return res;
    };
    let want = rfc_order(&xr, &yr);
    res.outcome = (x_loses as u128) | (y_loses as u128) << 1 | ((want as i8 + 1) as u128) << 2;
    let order_tag = if reversed { "authority-records-not-in-sorted-order" } else { "sorted-authority-records" };
    let ctx = || format!("X = {:?}  Y = {:?}", xr.iter().map(|r| r.summary()).collect::<Vec<_>>(), yr.iter().map(|r| r.summary()).collect::<Vec<_>>());
    if x_loses && y_loses {
        res.viols.push(viol(format!("C08|L|both-sides-lose|{order_tag}"), ctx()));
    }
    if want != Ordering::Equal && !x_loses && !y_loses {
        res.viols.push(viol(format!("C08|L|neither-side-yields-although-data-differ|{order_tag}"), ctx()));
    }
    if want == Ordering::Equal && (x_loses || y_loses) {
        res.viols.push(viol("C08|L|identical-data-but-one-side-yields", ctx()));
    }
    if !reversed && want != Ordering::Equal && x_loses != y_loses {
        // precedence: class, then type, then rdata, then count
        let rfc_x_loses = want == Ordering::Less;
        if x_loses != rfc_x_loses {
            res.viols.push(viol("C08|L|verdict-differs-from-class-type-rdata-count-order", format!("{} ; this code: X {} ; RFC order: X {}", ctx(), if x_loses { "yields" } else { "wins" }, if rfc_x_loses { "yields" } else { "wins" })));
        }
    }
    res.count(if x_loses || y_loses { "decided" } else { "ties" }, 1);
    res
}

// ---------------------------------------------------------------- L2: the rename functions

fn rename_inputs() -> Vec<String> {
    let mut v: Vec<String> = vec![
        "x._t._tcp.local.".into(),
        "x (2)._t._tcp.local.".into(),
        "x (9)._t._tcp.local.".into(),
        "x (4294967295)._t._tcp.local.".into(),
        "x (4294967294)._t._tcp.local.".into(),
        "x (a)._t._tcp.local.".into(),
        "x (2) y._t._tcp.local.".into(),
        "My\\.Printer._t._tcp.local.".into(),
        "é._t._tcp.local.".into(),
        " (2)._t._tcp.local.".into(),
    ];
    for l in [58usize, 59, 60, 61, 62, 63] {
        v.push(format!("{}._t._tcp.local.", "n".repeat(l)));
    }
    // counting up: bases (with spaces and parentheses inside) x existing suffix shapes
    for b in ["x", "a (2)", "a b", " ", "a (", "a)"] {
        for sfx in ["", " (2)", " (9)", " (10)", " (99)", " (a)", " (2)x", " (4294967295)", " ((2))", " (2) (3)", " ()", " (-1)", " (02)"] {
            v.push(format!("{b}{sfx}._t._tcp.local."));
        }
    }
    // a multi-byte character at every offset around the place where a long label is cut to make
    // room for the suffix, for labels of 56..63 bytes, without and with an existing " (9)" / " (99)"
    for l in multibyte_labels(" (9)", " (99)") {
        v.push(format!("{l}._t._tcp.local."));
    }
    v
}
/// Labels of 56..=63 bytes holding one 2-, 3- or 4-byte character at byte offset 48.., padded with
/// ASCII; plain and ending in each of the two given suffixes.
pub fn multibyte_labels(suffix1: &str, suffix2: &str) -> Vec<String> {
    let mut v = vec![];
    for c in ["é", "日", "😀"] {
        for total in 56usize..=63 {
            for tail in ["", suffix1, suffix2] {
                let body = total - tail.len();
                for p in 48..=(body - c.len()) {
                    v.push(format!("{}{c}{}{tail}", "n".repeat(p), "n".repeat(body - p - c.len())));
                }
            }
        }
    }
    v
}
fn rename_hosts() -> Vec<String> {
    let mut v: Vec<String> = vec![
        "h.local.".into(),
        "h-2.local.".into(),
        "h-9.local.".into(),
        "h-4294967295.local.".into(),
        "h-x.local.".into(),
        "my-host.local.".into(),
        "-2.local.".into(),
        "é.local.".into(),
    ];
    for l in [58usize, 60, 61, 62, 63] {
        v.push(format!("{}.local.", "h".repeat(l)));
    }
    for l in multibyte_labels("-9", "-99") {
        v.push(format!("{l}.local."));
    }
    // counting up: bases with hyphens inside x existing suffix shapes
    for b in ["h", "my-host", "a-b-c", "x-", "-", "a-2-b"] {
        for sfx in ["", "-2", "-9", "-10", "-99", "-x", "-4294967295", "-4294967294", "--2", "-2-", "-02", "-2-2"] {
            v.push(format!("{b}{sfx}.local."));
        }
    }
    v
}

/// Reference for the counting rule of the statement: instance 'x' -> 'x (2)' -> 'x (3)' ..., host
/// 'h' -> 'h-2' -> 'h-3' ...; a suffix that is not a number that can be incremented is kept and a new
/// one appended; the base is shortened at a character boundary so that the label stays <= 63 bytes.
fn ref_rename_label(label: &str, is_host: bool) -> String {
    fn cut(base: &str, suffix: &str) -> String {
        let mut end = base.len().min(63usize.saturating_sub(suffix.len()));
        while !base.is_char_boundary(end) {
            end -= 1;
        }
        format!("{}{}", &base[..end], suffix)
    }
    if is_host {
        if let Some(pos) = label.rfind('-') {
            if let Ok(nr) = label[pos + 1..].parse::<u32>() {
                if let Some(next) = nr.checked_add(1) {
                    return cut(&label[..pos], &format!("-{next}"));
                }
            }
        }
        cut(label, "-2")
    } else {
        if let Some(pos) = label.rfind(" (") {
            let rest = &label[pos + 2..];
            if let Some(num) = rest.strip_suffix(')') {
                if !num.contains(')') {
                    if let Ok(nr) = num.parse::<u32>() {
                        if let Some(next) = nr.checked_add(1) {
                            return cut(&label[..pos], &format!(" ({next})"));
                        }
                    }
                }
            }
        }
        cut(label, " (2)")
    }
}

fn first_label_len(name: &str) -> usize {
    crate::c02::labels_of(name).first().map_or(0, |l| l.len())
}

fn run_l2(i: u64) -> CaseResult {
    let mut res = CaseResult { nontrivial: true, transitions: 1, ..Default::default() };
    let ins = rename_inputs();
    let hosts = rename_hosts();
    let (is_host, input) = if (i as usize) < ins.len() { (false, ins[i as usize].clone()) } else { (true, hosts[i as usize - ins.len()].clone()) };
    let r = catch_unwind(AssertUnwindSafe(|| if is_host { names::hostname_change(&input) } else { names::name_change(&input) }));
    match r {
        Err(_) => {
            let p = take_panic().unwrap_or_default();
            res.viols.push(viol(format!("C08|L|rename-panics|{}", panic_sig(&p)), format!("{input:?}: {p}")));
        }
        Ok(out) => {
            res.outcome = fnv128(out.as_bytes());
            if out == input {
                res.viols.push(viol("C08|L|rename-returns-the-same-name", input.clone()));
            }
            if !out.ends_with(if is_host { ".local." } else { "._t._tcp.local." }) {
                res.viols.push(viol("C08|L|rename-changes-more-than-the-first-label", format!("{input:?} -> {out:?}")));
            }
            if std::str::from_utf8(crate::c02::labels_of(&out).first().map_or(&[][..], |l| &l[..])).is_err() {
                res.viols.push(viol("C08|L|renamed-label-is-not-utf8", format!("{input:?} -> {out:?}")));
            }
            if first_label_len(&out) > 63 && first_label_len(&input) <= 63 {
                res.viols.push(viol(
                    format!("C08|L|renamed-name-not-encodable|{}", if is_host { "host" } else { "instance" }),
                    format!("{:?} ({} bytes) -> first label of {} bytes", truncate(&input, 80), first_label_len(&input), first_label_len(&out)),
                ));
            }
            // the counting rule itself (names without escapes: the first label ends at the first dot)
            if !input.contains('\\') {
                if let Some((first, rest)) = input.split_once('.') {
                    let want = format!("{}.{}", ref_rename_label(first, is_host), rest);
                    if out != want {
                        res.viols.push(viol(format!("C08|L|rename-differs-from-the-counting-rule|{}", if is_host { "host" } else { "instance" }), format!("{input:?} -> {out:?}, expected {want:?}")));
                    }
                    res.count("renames_compared_with_the_counting_rule", 1);
                }
            }
            res.count("renames_checked", 1);
        }
    }
    res
}

// ---------------------------------------------------------------- S1: two daemons, one name

struct Final {
    inst: Option<Name>,
    srv_target: Option<Name>,
    a_owner: Option<Name>,
    announcements: usize,
}

fn final_names(w: &World, d: usize, ty: &Name) -> Final {
    let mut f = Final { inst: None, srv_target: None, a_owner: None, announcements: 0 };
    for (_, o) in outs(w, d, 0) {
        let Ok(m) = &o.msg else { continue };
        if !m.is_response() || !o.is_multicast() {
            continue;
        }
        let p = m.answers.iter().find(|r| r.rtype == T_PTR && name_eq_ci(&r.name, ty) && r.ttl > 0);
        let s = m.answers.iter().find(|r| r.rtype == T_SRV);
        let a = m.answers.iter().find(|r| r.rtype == T_A);
        if let (Some(p), Some(s), Some(a)) = (p, s, a) {
            f.announcements += 1;
            if let RD::Ptr(t) = &p.rd {
                f.inst = Some(t.clone());
            }
            if let RD::Srv { target, .. } = &s.rd {
                f.srv_target = Some(target.clone());
            }
            f.a_owner = Some(a.name.clone());
        }
    }
    f
}

/// Every packet `d` sent after `from` must use one consistent set of names.
fn consistency(w: &World, d: usize, from_t: u64, ty: &Name, res: &mut CaseResult, tag: &str) {
    let fin = final_names(w, d, ty);
    let (Some(inst), Some(host)) = (fin.inst.clone(), fin.a_owner.clone()) else { return };
    for (t, o) in outs(w, d, 0) {
        if t < from_t {
            continue;
        }
        let Ok(m) = &o.msg else { continue };
        if !m.is_response() {
            continue;
        }
        res.count("packets_checked_for_name_consistency", 1);
        for r in m.all_records() {
            let bad = match &r.rd {
                RD::Ptr(t) if name_eq_ci(&r.name, ty) => !name_eq_ci(t, &inst),
                RD::Srv { target, .. } => !name_eq_ci(&r.name, &inst) || !name_eq_ci(target, &host),
                RD::Txt(_) => !name_eq_ci(&r.name, &inst),
                RD::A(_) | RD::Aaaa(_) => !name_eq_ci(&r.name, &host),
                _ => false,
            };
            if bad {
                let which = match &r.rd {
                    RD::Srv { target, .. } if name_eq_ci(&r.name, &inst) && !name_eq_ci(target, &host) => "srv-target-is-not-the-announced-host",
                    RD::Srv { .. } | RD::Txt(_) => "srv-or-txt-owner-is-not-the-announced-instance",
                    RD::Ptr(_) => "ptr-target-is-not-the-announced-instance",
                    _ => "address-owner-is-not-the-announced-host",
                };
                let sec = if m.answers.contains(r) { "answer" } else { "additional" };
                let goodbye = r.ttl == 0;
                res.viols.push(viol(
                    format!("C08|inconsistent-names-after-rename|{which}|{}{}", if goodbye { "goodbye-" } else { "" }, sec),
                    format!("{tag} d{d} at +{}: {} ; announced instance {} host {} ; packet {}", t - T0, r.summary(), show_name(&inst), show_name(&host), m.summary()),
                ));
            }
        }
    }
}

fn run_two(delta: u64, ja: u64, jb: u64, third: bool, trace: bool) -> CaseResult {
    run_two_lb(delta, ja, jb, third, false, trace)
}

fn run_two_lb(delta: u64, ja: u64, jb: u64, third: bool, loopback: bool, trace: bool) -> CaseResult {
    let mut res = CaseResult::default();
    let mut w = World::new();
    w.trace = trace;
    w.loopback = w.loopback || loopback;
    let nd = if third { 3 } else { 2 };
    let mut link = vec![];
    for d in 0..nd {
        let ip = format!("10.0.0.{}", d + 1);
        let id = w.add_daemon(vec![v4("sim0", IF0, &ip, 24)]);
        link.push((id, IF0));
        w.ds[id].h.set_ip_check_interval(0).unwrap();
        let mon = w.ds[id].h.monitor().unwrap();
        w.add_mon(id, mon);
        w.poke(id);
    }
    w.links.push(link);
    let js = [ja, jb, 125];
    for d in 0..nd {
        w.ds[d].ctl.push_rng(js[d]);
        w.ds[d].ctl.set_rng_default((js[d] * 7 + 13 * d as u64) % 250);
    }
    let ty = n("_t._tcp.local");
    let reg = |w: &mut World, d: usize| {
        let ip = format!("10.0.0.{}", d + 1);
        w.ds[d].h.register(svc("_t._tcp.local.", "dup", "duphost.local.", &ip, 80 + d as u16, &[])).unwrap();
        w.poke(d);
    };
    reg(&mut w, 0);
    w.advance(delta);
    reg(&mut w, 1);
    if third {
        w.advance(100);
        reg(&mut w, 2);
    }
    w.advance(9000);
    // ask everybody everything; answers must use the final names
    let t_query = w.now;
    for d in 0..nd {
        let q = query(vec![(ty.clone(), T_PTR)]);
        w.deliver(d, IF0, "10.0.0.99:5353", build(&q));
    }
    let finals: Vec<Final> = (0..nd).map(|d| final_names(&w, d, &ty)).collect();
    for d in 0..nd {
        if let Some(inst) = &finals[d].inst {
            for qt in [T_SRV, T_TXT, T_ANY] {
                w.deliver(d, IF0, "10.0.0.99:5353", build(&query(vec![(inst.clone(), qt)])));
            }
        }
        if let Some(h) = &finals[d].a_owner {
            w.deliver(d, IF0, "10.0.0.99:5353", build(&query(vec![(h.clone(), T_A)])));
        }
        // a renamed daemon is also asked for the names it gave up: it must stay silent
        if finals[d].inst.as_ref().is_some_and(|i| !name_eq_ci(i, &n("dup._t._tcp.local"))) {
            for qt in [T_SRV, T_TXT, T_ANY] {
                w.deliver(d, IF0, "10.0.0.99:5353", build(&query(vec![(n("dup._t._tcp.local"), qt)])));
            }
            res.count("old_instance_name_asked_after_rename", 1);
        }
        if finals[d].a_owner.as_ref().is_some_and(|h| !name_eq_ci(h, &n("duphost.local"))) {
            for qt in [T_A, T_ANY] {
                w.deliver(d, IF0, "10.0.0.99:5353", build(&query(vec![(n("duphost.local"), qt)])));
            }
        }
    }
    // then everybody leaves
    for d in 0..nd {
        let _ = w.ds[d].h.unregister("dup._t._tcp.local.").unwrap();
        w.poke(d);
    }
    w.advance(300);
    for d in 0..nd {
        if let Some(f) = daemon_fault(&w, d) {
            res.viols.push(viol(format!("C08|daemon-fault|{}", panic_sig(&f)), f));
            return res;
        }
    }
    let tag = format!("delta {delta} jitters {ja}/{jb}");
    let orig_inst = n("dup._t._tcp.local");
    let orig_host = n("duphost.local");
    for d in 0..nd {
        if finals[d].announcements == 0 {
            res.viols.push(viol("C08|daemon-never-announced", format!("{tag}: d{d} sent no announcement in 9 s")));
        }
    }
    let insts: Vec<Name> = finals.iter().filter_map(|f| f.inst.clone()).map(|x| lower(&x)).collect();
    let hosts: Vec<Name> = finals.iter().filter_map(|f| f.a_owner.clone()).map(|x| lower(&x)).collect();
    if insts.len() == nd {
        res.count("runs_with_all_announced", 1);
        let holders = insts.iter().filter(|i| **i == orig_inst).count();
        if holders != 1 {
            res.viols.push(viol(format!("C08|{}-daemons-hold-the-original-instance-name", holders.min(2)), format!("{tag}: final instance names {:?}", insts.iter().map(show_name).collect::<Vec<_>>())));
        }
        let hh = hosts.iter().filter(|h| **h == orig_host).count();
        if hh != 1 {
            res.viols.push(viol(format!("C08|{}-daemons-hold-the-original-host-name", hh.min(2)), format!("{tag}: final host names {:?}", hosts.iter().map(show_name).collect::<Vec<_>>())));
        }
        if insts.iter().collect::<BTreeSet<_>>().len() != nd || hosts.iter().collect::<BTreeSet<_>>().len() != nd {
            res.viols.push(viol(format!("C08|two-daemons-end-with-the-same-name|{}-daemons", nd), format!("{tag}: instances {:?} hosts {:?}", insts.iter().map(show_name).collect::<Vec<_>>(), hosts.iter().map(show_name).collect::<Vec<_>>())));
        }
    }
    for d in 0..nd {
        // SRV target of the final announcement is the announced host
        if let (Some(t), Some(a)) = (&finals[d].srv_target, &finals[d].a_owner) {
            if !name_eq_ci(t, a) {
                res.viols.push(viol("C08|announced-srv-target-is-not-the-announced-host", format!("{tag} d{d}: SRV target {} address owner {}", show_name(t), show_name(a))));
            }
        }
        consistency(&w, d, t_query, &ty, &mut res, &tag);
        // NameChange events are reported for every rename visible on the wire
        let renamed = finals[d].inst.as_ref().is_some_and(|i| !name_eq_ci(i, &orig_inst));
        let ev = mevs(&w, d, 0).iter().any(|(_, e)| matches!(e, MEv::NameChange { .. }));
        if renamed && !ev {
            res.viols.push(viol("C08|rename-without-NameChange-event", format!("{tag} d{d}")));
        }
        if renamed {
            res.count("renames_observed", 1);
        }
    }
    res.nontrivial = true;
    res.transitions = w.steps;
    res.outcome = outcome_hash(&w.log);
    res.states = final_states(&w);
    res
}

// ---------------------------------------------------------------- S2: scripted conflicts at every probe step

fn run_scripted(step: u64, kind: u64, shape: u64, trace: bool) -> CaseResult {
    run_scripted_case(step, kind, shape, false, trace)
}

/// `peer_other_case`: the peer spells the contested names with the ASCII letters in the other case.
fn run_scripted_case(step: u64, kind: u64, shape: u64, peer_other_case: bool, trace: bool) -> CaseResult {
    // kind: 0 conflicting SRV response, 1 conflicting SRV+TXT, 2 conflicting A, 3 SRV+A, 4 winning probe, 5 losing probe
    let mut res = CaseResult::default();
    let mut w = World::one(lay_v4());
    w.trace = trace;
    w.ds[0].h.set_ip_check_interval(0).unwrap();
    let mon = w.ds[0].h.monitor().unwrap();
    w.add_mon(0, mon);
    w.ds[0].ctl.set_rng_default(0);
    w.poke(0);
    let shapes: [(&str, &str); 5] = [("plain", "one"), ("escaped-dot", "My.Printer"), ("long-60", &"n".repeat(60)), ("has-suffix", "one (2)"), ("long-63", &"n".repeat(63))];
    let (shape_tag, inst_label) = shapes[shape as usize];
    let ty = n("_t._tcp.local");
    let mut inst: Name = vec![inst_label.as_bytes().to_vec()];
    inst.extend(ty.clone());
    let host = n("myhost.local");
    w.ds[0].h.register(svc("_t._tcp.local.", inst_label, "myhost.local.", "10.0.0.5", 80, &[("k", "v")])).unwrap();
    w.poke(0);
    w.advance(step * 250 + 100);
    let flip = |nm: &Name| -> Name {
        if !peer_other_case {
            return nm.clone();
        }
        nm.iter().map(|l| l.iter().map(|b| if b.is_ascii_lowercase() { b.to_ascii_uppercase() } else { b.to_ascii_lowercase() }).collect()).collect()
    };
    let their_srv = srv(&flip(&inst), &n("other.local"), 9, 120);
    let their_txt = txt(&flip(&inst), &[1, b'z'], 4500);
    let their_a = a(&flip(&host), [10, 0, 0, 200], 120);
    match kind {
        0 => { w.deliver(0, IF0, PEER0, build(&response(vec![their_srv]))); }
        1 => { w.deliver(0, IF0, PEER0, build(&response(vec![their_srv, their_txt]))); }
        2 => { w.deliver(0, IF0, PEER0, build(&response(vec![their_a]))); }
        3 => { w.deliver(0, IF0, PEER0, build(&response(vec![their_srv, their_a]))); }
        _ => {
            let mut q = query(vec![(flip(&host), T_ANY)]);
            let mut r = a(&flip(&host), if kind == 4 { [10, 0, 0, 200] } else { [10, 0, 0, 1] }, 120);
            r.flush = false;
            q.authorities.push(r);
            w.deliver(0, IF0, PEER0, build(&q));
        }
    }
    w.advance(6000);
    let t_query = w.now;
    let fin = final_names(&w, 0, &ty);
    let tag = format!("conflict kind {kind} after probe {step} shape {shape_tag}{}", if peer_other_case { " peer-spells-in-other-case" } else { "" });
    if let Some(f) = daemon_fault(&w, 0) {
        res.viols.push(viol(format!("C08|daemon-fault|{}|{shape_tag}", panic_sig(&f)), format!("{tag}: {f}")));
        return res;
    }
    if fin.announcements == 0 {
        res.viols.push(viol(format!("C08|never-announced-after-conflict|kind{kind}|{shape_tag}"), tag.clone()));
    } else {
        res.count("announced_after_conflict", 1);
        let inst_conflict = matches!(kind, 0 | 1 | 3);
        let host_conflict = matches!(kind, 2 | 3);
        let fi = fin.inst.clone().unwrap();
        let fh = fin.a_owner.clone().unwrap();
        if inst_conflict && name_eq_ci(&fi, &inst) {
            res.viols.push(viol(format!("C08|announced-under-the-contested-instance-name|{shape_tag}"), format!("{tag}: {}", show_name(&fi))));
            res.nontrivial = true;
            res.transitions = w.steps;
            res.outcome = outcome_hash(&w.log);
            return res; // the remaining clauses presuppose that the conflict was noticed
        }
        if host_conflict && name_eq_ci(&fh, &host) {
            res.viols.push(viol("C08|announced-under-the-contested-host-name", format!("{tag}: {}", show_name(&fh))));
        }
        if !inst_conflict && !name_eq_ci(&fi, &inst) || !host_conflict && !name_eq_ci(&fh, &host) {
            res.viols.push(viol("C08|renamed-without-a-conflict", format!("{tag}: {} {}", show_name(&fi), show_name(&fh))));
        }
        if inst_conflict {
            // expected new first label: "x" -> "x (2)", "x (2)" -> "x (3)"
            let want = if inst_label.ends_with(" (2)") { inst_label.replace(" (2)", " (3)") } else { format!("{inst_label} (2)") };
            if fi[0] != want.as_bytes() && want.len() <= 63 {
                res.viols.push(viol("C08|unexpected-new-instance-name", format!("{tag}: {} expected first label {:?}", show_name(&fi), want)));
            }
        }
        if host_conflict && fh[0] != b"myhost-2" {
            res.viols.push(viol("C08|unexpected-new-host-name", format!("{tag}: {}", show_name(&fh))));
        }
        // under its final names the service is announced at least twice, one second apart
        if fin.announcements < 2 {
            res.viols.push(viol("C08|service-announced-only-once-after-the-conflict", format!("{tag}: {} announcement(s) carrying PTR, SRV and address in 6 s", fin.announcements)));
        }
        // lost comparison: probe again 1 s later, three probes
        if kind == 4 {
            let probes: Vec<u64> = outs(&w, 0, 0).iter().filter(|(_, o)| o.msg.as_ref().is_ok_and(|m| !m.is_response() && asks(m, &host, T_ANY))).map(|(t, _)| *t - T0).collect();
            let lost_at = step * 250 + 100;
            let ok = [lost_at + 1000, lost_at + 1250, lost_at + 1500].iter().all(|t| probes.contains(t));
            if !ok {
                res.viols.push(viol("C08|no-three-probes-one-second-after-a-lost-tiebreak", format!("{tag}: host probes at {probes:?}")));
            } else {
                res.count("reprobe_after_lost_tiebreak", 1);
            }
        }
        // every question type, then goodbye: all under the final names
        for qt in [T_SRV, T_TXT, T_ANY] {
            w.deliver(0, IF0, PEER0, build(&query(vec![(fi.clone(), qt)])));
        }
        w.deliver(0, IF0, PEER0, build(&query(vec![(ty.clone(), T_PTR)])));
        w.deliver(0, IF0, PEER0, build(&query(vec![(fh.clone(), T_A)])));
        // and the names it gave up: a renamed daemon must stay silent on those
        if !name_eq_ci(&fi, &inst) {
            for qt in [T_SRV, T_TXT, T_ANY] {
                w.deliver(0, IF0, PEER0, build(&query(vec![(inst.clone(), qt)])));
            }
            res.count("old_instance_name_asked_after_rename", 1);
        }
        if !name_eq_ci(&fh, &host) {
            for qt in [T_A, T_ANY] {
                w.deliver(0, IF0, PEER0, build(&query(vec![(host.clone(), qt)])));
            }
        }
        let full = format!("{}._t._tcp.local.", inst_label.replace('\\', "\\\\").replace('.', "\\."));
        let _ = w.ds[0].h.unregister(&full).unwrap();
        w.poke(0);
        w.advance(200);
        consistency(&w, 0, t_query, &ty, &mut res, &tag);
        let renamed = inst_conflict || host_conflict;
        if renamed && !mevs(&w, 0, 0).iter().any(|(_, e)| matches!(e, MEv::NameChange { .. })) {
            res.viols.push(viol("C08|rename-without-NameChange-event", tag.clone()));
        }
    }
    res.nontrivial = true;
    res.transitions = w.steps;
    res.outcome = outcome_hash(&w.log);
    res.states = final_states(&w);
    res
}

// ---------------------------------------------------------------- S3: a peer that defends the names it holds, but late

/// A scripted peer holds the instance with exactly the SRV and TXT the daemon proposes (SRV target:
/// the contested host name) and the host name with another address.  It ignores the daemon's first
/// `k` probe rounds and from then on answers every probe that asks for a name it holds, `lat` ms
/// after the probe (SRV and TXT before the address record).  The daemon has to give up the host
/// name and, because its SRV then differs from the holder's, the instance name too.
fn run_defender(k: u64, lat: u64, trace: bool) -> CaseResult {
    let mut res = CaseResult::default();
    let mut w = World::one(lay_v4());
    w.trace = trace;
    w.ds[0].h.set_ip_check_interval(0).unwrap();
    w.ds[0].ctl.set_rng_default(0);
    w.poke(0);
    let ty = n("_t._tcp.local");
    let inst = n("one._t._tcp.local");
    let host = n("myhost.local");
    let t0 = w.now;
    w.ds[0].h.register(svc("_t._tcp.local.", "one", "myhost.local.", "10.0.0.5", 80, &[("k", "v")])).unwrap();
    w.poke(0);
    let defence = build(&response(vec![srv(&inst, &host, 80, 120), txt(&inst, &txt_rdata(&[(b"k", Some(b"v"))]), 4500), a(&host, [10, 0, 0, 200], 120)]));
    let end = t0 + 9000;
    let mut seen = 0usize;
    let mut rounds = 0u64;
    let mut due: Vec<u64> = vec![];
    loop {
        // probes sent since the last look
        let new_probes: Vec<u64> = w.log[seen..].iter().filter_map(|e| match &e.kind {
            Kind::Out(o) if o.msg.as_ref().is_ok_and(|m| !m.is_response() && !m.authorities.is_empty() && m.questions.iter().any(|q| q.qtype == T_ANY && (name_eq_ci(&q.name, &inst) || name_eq_ci(&q.name, &host)))) => Some(e.t),
            _ => None,
        }).collect();
        seen = w.log.len();
        for t in new_probes {
            rounds += 1;
            if rounds > k {
                due.push(t + lat);
            }
        }
        due.sort_unstable();
        let next_due = due.first().copied();
        let next_wake = w.next_wake().map(|x| x.0);
        match (next_due, next_wake) {
            (Some(d), nw) if nw.map_or(true, |n| d <= n) => {
                if d > end {
                    break;
                }
                w.set_now(d.max(w.now));
                due.remove(0);
                w.deliver(0, IF0, PEER0, defence.clone());
                res.count("defences_sent", 1);
            }
            _ => {
                if !w.wake_next(end) {
                    break;
                }
            }
        }
    }
    let tag = format!("the holder answers from probe round {} on, {lat} ms after each probe", k + 1);
    if let Some(f) = daemon_fault(&w, 0) {
        res.viols.push(viol(format!("C08|daemon-fault|{}|late-defender", panic_sig(&f)), format!("{tag}: {f}")));
        return res;
    }
    let fin = final_names(&w, 0, &ty);
    res.count("defender_runs", 1);
    if fin.announcements == 0 {
        res.viols.push(viol("C08|never-announced-after-conflict|late-defender", tag.clone()));
    } else {
        let fi = fin.inst.clone().unwrap();
        let fh = fin.a_owner.clone().unwrap();
        if name_eq_ci(&fh, &host) {
            res.viols.push(viol("C08|announced-under-the-contested-host-name|late-defender", format!("{tag}: {}", show_name(&fh))));
        }
        if name_eq_ci(&fi, &inst) {
            res.viols.push(viol("C08|announced-under-the-contested-instance-name|late-defender", format!("{tag}: announced {} with SRV target {:?} while the holder has it with target {}", show_name(&fi), fin.srv_target.as_ref().map(show_name), show_name(&host))));
        }
    }
    res.nontrivial = true;
    res.transitions = w.steps;
    res.outcome = outcome_hash(&w.log);
    res.states = final_states(&w);
    res
}

pub fn check(tier: &str) -> i32 {
    let mut rep = Report::new("C08", tier, "model_checking");
    let thorough = rep.thorough();
    rep.assume("reference order for the comparison: RFC 6762 8.2.1 (class, type, raw RDATA bytes, then number of records); SRV targets in the menu are chosen so that string order equals wire order");
    let menu = l_menu();
    let subs = subsets(menu.len(), if thorough { 3 } else { 2 });
    let ns = subs.len() as u64;
    let (m2, s2) = (menu.clone(), subs.clone());
    let l1 = FnPart {
        name: "L-tiebreak-pairs".into(),
        rule: format!("all ordered pairs of record sets of size <= {} from a menu of {} records (two classes, A/AAAA/TXT/SRV, RDATA differing in first/last byte, length, SRV priority/weight/port/target) through the real Probe::tiebreaking in both directions, authority section sorted and reversed", if thorough { 3 } else { 2 }, menu.len()),
        n: ns * ns * 2,
        describe: Box::new(move |i| format!("X={:?} Y={:?} reversed={}", s2[((i / 2) / ns) as usize], s2[((i / 2) % ns) as usize], i % 2 == 1)),
        run: Box::new(move |i, _| run_l1(&subs[((i / 2) / ns) as usize], &subs[((i / 2) % ns) as usize], i % 2 == 1, &m2)),
    };
    rep.run_part(&l1, Duration::from_secs(600));
    let nl2 = (rename_inputs().len() + rename_hosts().len()) as u64;
    let l2 = FnPart {
        name: "L-rename-functions".into(),
        rule: "name_change / hostname_change on names with existing (N) / -N suffixes, u32::MAX, escaped dots, non-ASCII, first labels of 58..63 bytes, and first labels of 56..63 bytes with a 2-, 3- or 4-byte character at every byte offset from 48 on (plain and already carrying a one- or two-digit suffix)".into(),
        n: nl2,
        describe: Box::new(|i| format!("input #{i}")),
        run: Box::new(|i, _| run_l2(i)),
    };
    rep.run_part(&l2, Duration::from_secs(60));

    let step = if thorough { 2 } else { 10 };
    let deltas: Vec<u64> = (0..=3000).step_by(step).collect();
    let nd = deltas.len() as u64;
    let js = [0u64, 125, 249];
    let d2 = deltas.clone();
    let two = FnPart {
        name: "S-two-daemons-one-name".into(),
        rule: format!("two real daemons on one loss-free simulated link register the same instance and host name with different address/port; start offset every {step} ms from 0 to 3000 x 3x3 probe jitters x (own multicasts not heard / heard back); 9 s, then queries for every record type and unregister"),
        n: nd * 18,
        describe: Box::new(move |i| format!("delta {} jitters {}/{}{}", d2[(i % nd) as usize], js[((i / nd) % 3) as usize], js[((i / nd / 3) % 3) as usize], if i / nd / 9 == 1 { " multicast-loop" } else { "" })),
        run: Box::new(move |i, tr| run_two_lb(deltas[(i % nd) as usize], js[((i / nd) % 3) as usize], js[((i / nd / 3) % 3) as usize], false, i / nd / 9 == 1, tr)),
    };
    rep.run_part(&two, Duration::from_secs(if thorough { 3000 } else { 50 }));
    let three = FnPart {
        name: "S-three-daemons".into(),
        rule: "three daemons, second after 0..1000 ms (100 ms grid), third 100 ms later".into(),
        n: 11,
        describe: Box::new(|i| format!("delta {}", i * 100)),
        run: Box::new(|i, tr| run_two(i * 100, 0, 125, true, tr)),
    };
    rep.run_part(&three, Duration::from_secs(300));
    let sdims = [3u64, 6, 5, 2];
    let scripted = FnPart {
        name: "S-scripted-conflicts".into(),
        rule: "one daemon; after probe 1, 2 or 3 a scripted peer sends a conflicting response (SRV / SRV+TXT / A / SRV+A) or a winning / losing simultaneous probe; 5 instance-name shapes; the peer spelling the names as registered or with the letters in the other case; afterwards every question type is asked and the service unregistered".into(),
        n: product(&sdims),
        describe: Box::new(move |i| format!("{:?}", unrank(i, &sdims))),
        run: Box::new(move |i, tr| { let x = unrank(i, &sdims); run_scripted_case(x[0], x[1], x[2], x[3] == 1, tr) }),
    };
    rep.run_part(&scripted, Duration::from_secs(300));
    let ddims = [3u64, 3];
    let defender = FnPart {
        name: "S-late-defender".into(),
        rule: "a scripted peer holds the instance (with the SRV and TXT the daemon proposes, SRV target = the contested host name) and the host name (with another address); it stays silent for the daemon's first 0 / 1 / 2 probe rounds and then answers every probe for a name it holds, 0 / 60 / 200 ms after the probe; the daemon must end up announced under another host name and another instance name".into(),
        n: product(&ddims),
        describe: Box::new(move |i| format!("{:?}", unrank(i, &ddims))),
        run: Box::new(move |i, tr| { let x = unrank(i, &ddims); run_defender(x[0], [0, 60, 200][x[1] as usize], tr) }),
    };
    rep.run_part(&defender, Duration::from_secs(120));
    rep.require("S-late-defender", "defences_sent");
    rep.require("L-tiebreak-pairs", "decided");
    rep.require("S-two-daemons-one-name", "runs_with_all_announced");
    rep.require("S-two-daemons-one-name", "renames_observed");
    rep.require("L-rename-functions", "renames_compared_with_the_counting_rule");
    rep.require("S-scripted-conflicts", "announced_after_conflict");
    rep.require("S-scripted-conflicts", "old_instance_name_asked_after_rename");
    rep.require("S-two-daemons-one-name", "old_instance_name_asked_after_rename");
    rep.require("S-scripted-conflicts", "reprobe_after_lost_tiebreak");
    rep.finish()
}
