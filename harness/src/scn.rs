//! Shared scenario helpers for daemon-level checks.
use crate::indep::*;
use crate::sim::*;
use mdns_sd::verif::SimIntf;
use mdns_sd::{ServiceInfo, TxtProperty};
use std::net::IpAddr;

pub const IF0: u32 = 7;
pub const IF1: u32 = 8;
pub const IF2: u32 = 9;

pub const PEER0: &str = "10.0.0.9:5353";
pub const PEER1: &str = "10.0.1.9:5353";
pub const PEER0_V6: &str = "[fd00::9]:5353";

/// One IPv4 interface 10.0.0.1/24.
pub fn lay_v4() -> Vec<SimIntf> {
    vec![v4("sim0", IF0, "10.0.0.1", 24)]
}
/// One interface with IPv4 and IPv6.
pub fn lay_dual() -> Vec<SimIntf> {
    vec![
        v4("sim0", IF0, "10.0.0.1", 24),
        v6("sim0", IF0, "fd00::1", 64),
    ]
}
/// One IPv6-only interface.
pub fn lay_v6() -> Vec<SimIntf> {
    vec![v6("sim0", IF0, "fd00::1", 64)]
}
/// Two IPv4 interfaces on different subnets.
pub fn lay_two() -> Vec<SimIntf> {
    vec![
        v4("sim0", IF0, "10.0.0.1", 24),
        v4("sim1", IF1, "10.0.1.1", 24),
    ]
}
/// Two interfaces, second also has IPv6.
pub fn lay_two_dual() -> Vec<SimIntf> {
    vec![
        v4("sim0", IF0, "10.0.0.1", 24),
        v4("sim1", IF1, "10.0.1.1", 24),
        v6("sim1", IF1, "fd00:1::1", 64),
    ]
}

pub fn svc(ty: &str, inst: &str, host: &str, ips: &str, port: u16, props: &[(&str, &str)]) -> ServiceInfo {
    let p: Vec<TxtProperty> = props.iter().map(TxtProperty::from).collect();
    // Built on a fresh thread: std seeds each new HashMap/HashSet from a per-thread counter, so the
    // iteration order of the address set (and with it the order of A records in packets) would
    // otherwise depend on what the worker thread happened to run before.
    std::thread::scope(|s| s.spawn(|| ServiceInfo::new(ty, inst, host, ips, port, p).expect("ServiceInfo::new")).join().expect("svc thread"))
}

/// A scripted responder's view of one service instance.
#[derive(Clone, Debug)]
pub struct Inst {
    pub ty: Name,
    pub sub: Option<Name>,
    pub inst: Name,
    pub host: Name,
    pub port: u16,
    pub txt: Vec<u8>,
    pub v4: Vec<[u8; 4]>,
    pub v6: Vec<std::net::Ipv6Addr>,
}

impl Inst {
    pub fn simple(inst_label: &str, host_label: &str, ip: [u8; 4]) -> Inst {
        let ty = n("_t._tcp.local");
        let mut inst = vec![inst_label.as_bytes().to_vec()];
        inst.extend(ty.clone());
        Inst {
            ty,
            sub: None,
            inst,
            host: vec![host_label.as_bytes().to_vec(), b"local".to_vec()],
            port: 80,
            txt: txt_rdata(&[(b"k", Some(b"v"))]),
            v4: vec![ip],
            v6: vec![],
        }
    }
    pub fn ptr(&self, ttl: u32) -> Record {
        ptr(&self.ty, &self.inst, ttl)
    }
    pub fn srv(&self, ttl: u32) -> Record {
        srv(&self.inst, &self.host, self.port, ttl)
    }
    pub fn txt(&self, ttl: u32) -> Record {
        txt(&self.inst, &self.txt, ttl)
    }
    pub fn addrs(&self, ttl: u32) -> Vec<Record> {
        let mut v: Vec<Record> = self.v4.iter().map(|ip| a(&self.host, *ip, ttl)).collect();
        v.extend(self.v6.iter().map(|ip| aaaa(&self.host, *ip, ttl)));
        v
    }
    pub fn all(&self, ttl: u32) -> Vec<Record> {
        let mut v = vec![self.ptr(ttl), self.srv(ttl), self.txt(ttl)];
        v.extend(self.addrs(ttl));
        v
    }
    /// The crate's (unescaped) dotted spelling of the names, as events report them.
    pub fn fullname(&self) -> String {
        dotted(&self.inst)
    }
    pub fn ty_str(&self) -> String {
        dotted(&self.ty)
    }
    pub fn host_str(&self) -> String {
        dotted(&self.host)
    }
}

pub fn ip4(a: [u8; 4]) -> IpAddr {
    IpAddr::V4(std::net::Ipv4Addr::from(a))
}

/// All multicast/unicast packets daemon `d` sent, from log index `from`.
pub fn outs(w: &World, d: usize, from: usize) -> Vec<(u64, Out)> {
    w.log[from..]
        .iter()
        .filter(|e| e.d == d)
        .filter_map(|e| match &e.kind {
            Kind::Out(o) => Some((e.t, o.clone())),
            _ => None,
        })
        .collect()
}

pub fn bevs(w: &World, d: usize, ch: usize, from: usize) -> Vec<(u64, BEv)> {
    w.log[from..]
        .iter()
        .filter(|e| e.d == d)
        .filter_map(|e| match &e.kind {
            Kind::B(c, ev) if *c == ch => Some((e.t, ev.clone())),
            _ => None,
        })
        .collect()
}

pub fn hevs(w: &World, d: usize, ch: usize, from: usize) -> Vec<(u64, HEv)> {
    w.log[from..]
        .iter()
        .filter(|e| e.d == d)
        .filter_map(|e| match &e.kind {
            Kind::H(c, ev) if *c == ch => Some((e.t, ev.clone())),
            _ => None,
        })
        .collect()
}

pub fn mevs(w: &World, d: usize, from: usize) -> Vec<(u64, MEv)> {
    w.log[from..]
        .iter()
        .filter(|e| e.d == d)
        .filter_map(|e| match &e.kind {
            Kind::M(_, ev) => Some((e.t, ev.clone())),
            _ => None,
        })
        .collect()
}

/// Does the message ask (name, qtype)? Name compared case-insensitively.
pub fn asks(m: &Msg, name: &Name, qtype: u16) -> bool {
    m.questions
        .iter()
        .any(|q| q.qtype == qtype && name_eq_ci(&q.name, name))
}

/// Standard end-of-run digest for product-family checks: the daemon dumps.
pub fn final_states(w: &World) -> Vec<u128> {
    (0..w.ds.len())
        .filter_map(|d| w.dump(d))
        .map(|s| fnv128(s.as_bytes()))
        .collect()
}

/// If daemon `d` died or hung, a violation text; otherwise None.
pub fn daemon_fault(w: &World, d: usize) -> Option<String> {
    if let Some(s) = &w.storm {
        return Some(s.clone());
    }
    match &w.ds[d].state {
        StepOut::Parked => None,
        StepOut::Exited { panicked: true } => Some(format!(
            "daemon thread panicked: {}",
            w.ds[d].ctl.panic_msg().unwrap_or_default()
        )),
        StepOut::Exited { panicked: false } => Some("daemon thread exited".into()),
        StepOut::Hung => Some("daemon did not park within the real-time limit".into()),
        StepOut::Dead => Some("daemon dead".into()),
    }
}
