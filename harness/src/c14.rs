//! C14 — shutdown is clean, final and safe under concurrent use (Engine S, schedules).
//!
//! Client and daemon meet only at the command channel. What can be owned exactly is the position
//! of each client call relative to the daemon's three transitions: dequeue of Exit (+cleanup),
//! drop of the command receiver, send of the final status. Park points on the exit path make
//! those windows addressable.
use crate::fw::*;
use crate::indep::*;
use crate::scn::*;
use crate::sim::*;
use mdns_sd::{DaemonStatus, Error, IfKind, Receiver, ServiceDaemon};
use std::time::Duration;

#[derive(Clone, Copy, Debug, PartialEq)]
enum Cmd {
    Browse2,
    BrowseCache,
    StopBrowse,
    Resolve2,
    StopResolve,
    Register2,
    Unregister1,
    Monitor,
    Status,
    GetMetrics,
    Verify,
    SetIpInterval,
    DisableIf,
    EnableIf,
    Unsolicited,
    GetIpInterval,
    /// shutdown() from a second handle clone, queued like any other command
    Shutdown2,
}
const CMDS: [Cmd; 17] = [
    Cmd::Browse2,
    Cmd::BrowseCache,
    Cmd::StopBrowse,
    Cmd::Resolve2,
    Cmd::StopResolve,
    Cmd::Register2,
    Cmd::Unregister1,
    Cmd::Monitor,
    Cmd::Status,
    Cmd::GetMetrics,
    Cmd::Verify,
    Cmd::SetIpInterval,
    Cmd::DisableIf,
    Cmd::EnableIf,
    Cmd::Unsolicited,
    Cmd::GetIpInterval,
    Cmd::Shutdown2,
];

#[derive(Debug, PartialEq)]
enum Reply {
    Value(String),
    Closed,
    EmptyButConnected,
}

type Probe = Box<dyn Fn() -> Reply + Send>;

fn probe<T: Send + 'static + std::fmt::Debug>(rx: Receiver<T>, show: bool) -> Probe {
    Box::new(move || match rx.try_recv() {
        Ok(v) => Reply::Value(if show { format!("{v:?}") } else { "value".into() }),
        Err(flume::TryRecvError::Disconnected) => Reply::Closed,
        Err(flume::TryRecvError::Empty) => Reply::EmptyButConnected,
    })
}

struct Issued {
    what: String,
    /// Err(text) if the call itself returned an error
    result: Result<(), String>,
    probes: Vec<Probe>,
    /// event channels (browse / resolver): must end closed, with exactly one SearchStopped if opened
    event_ch: Option<(char, usize)>,
    helper: Option<std::thread::JoinHandle<Result<u32, String>>>,
    /// where the call was made: "queue" or "window-N"
    origin: String,
    /// status receiver of a queued second shutdown, and whether it has yielded Shutdown
    shutdown2: Option<Receiver<DaemonStatus>>,
    shutdown2_seen: bool,
}

fn issue(w: &mut World, h: &ServiceDaemon, c: Cmd) -> Issued {
    let mut is = Issued { what: format!("{c:?}"), result: Ok(()), probes: vec![], event_ch: None, helper: None, origin: "queue".into(), shutdown2: None, shutdown2_seen: false };
    let err = |e: Error| e.to_string();
    match c {
        Cmd::Browse2 => match h.browse("_u._udp.local.") {
            Ok(rx) => is.event_ch = Some(('B', w.add_browse(0, rx))),
            Err(e) => is.result = Err(err(e)),
        },
        Cmd::BrowseCache => match h.browse_cache("_t._tcp.local.") {
            Ok(rx) => is.event_ch = Some(('C', w.add_browse(0, rx))),
            Err(e) => is.result = Err(err(e)),
        },
        Cmd::StopBrowse => is.result = h.stop_browse("_t._tcp.local.").map_err(err),
        Cmd::Resolve2 => match h.resolve_hostname("h2.local.", Some(60_000)) {
            Ok(rx) => is.event_ch = Some(('H', w.add_host(0, rx))),
            Err(e) => is.result = Err(err(e)),
        },
        Cmd::StopResolve => is.result = h.stop_resolve_hostname("h1.local.").map_err(err),
        Cmd::Register2 => is.result = h.register(svc("_t._tcp.local.", "two", "myhost.local.", "10.0.0.5", 81, &[])).map_err(err),
        Cmd::Unregister1 => match h.unregister("one._t._tcp.local.") {
            Ok(rx) => is.probes.push(probe(rx, true)),
            Err(e) => is.result = Err(err(e)),
        },
        Cmd::Monitor => match h.monitor() {
            Ok(rx) => { w.add_mon(0, rx); }
            Err(e) => is.result = Err(err(e)),
        },
        Cmd::Status => match h.status() {
            Ok(rx) => is.probes.push(probe(rx, true)),
            Err(e) => is.result = Err(err(e)),
        },
        Cmd::GetMetrics => match h.get_metrics() {
            Ok(rx) => is.probes.push(probe(rx, false)),
            Err(e) => is.result = Err(err(e)),
        },
        Cmd::Verify => is.result = h.verify("inst._t._tcp.local.".into(), Duration::from_millis(3000)).map_err(err),
        Cmd::SetIpInterval => is.result = h.set_ip_check_interval(7).map_err(err),
        Cmd::DisableIf => is.result = h.disable_interface("sim9").map_err(err),
        Cmd::EnableIf => is.result = h.enable_interface("sim0").map_err(err),
        Cmd::Unsolicited => is.result = h.accept_unsolicited(true).map_err(err),
        Cmd::Shutdown2 => match h.clone().shutdown() {
            Ok(rx) => is.shutdown2 = Some(rx),
            Err(e) => is.result = Err(err(e)),
        },
        Cmd::GetIpInterval => {
            // the one call that waits for its reply itself (10 s real time): helper thread
            let h2 = h.clone();
            is.helper = Some(std::thread::spawn(move || h2.get_ip_check_interval().map_err(|e| e.to_string())));
            // The helper is a real thread: when its command reaches the queue is not under the
            // explorer's control. In the queue the daemon is stepped until the helper has its
            // reply (see `settle_helper`); on the exit path the call is only placed where its
            // outcome does not depend on that moment (channel already closed).
        }
    }
    is
}

/// Every public call of the handle (status and shutdown are judged by the caller) with valid
/// arguments: `None` where it failed with `Error::DaemonShutdown`, otherwise what it did instead.
fn every_call(h: &ServiceDaemon) -> Vec<(&'static str, Option<String>)> {
    fn j<T>(r: Result<T, Error>) -> Option<String> {
        match r {
            Err(Error::DaemonShutdown) => None,
            Err(e) => Some(format!("Err({e:?})")),
            Ok(_) => Some("Ok".into()),
        }
    }
    vec![
        ("browse_cache", j(h.browse_cache("_late._udp.local."))),
        ("stop_browse", j(h.stop_browse("_late._udp.local."))),
        ("resolve_hostname", j(h.resolve_hostname("late.local.", Some(1000)))),
        ("stop_resolve_hostname", j(h.stop_resolve_hostname("late.local."))),
        ("register", j(h.register(svc("_late._udp.local.", "late", "latehost.local.", "10.0.0.5", 80, &[])))),
        ("unregister", j(h.unregister("late._late._udp.local."))),
        ("monitor", j(h.monitor())),
        ("get_metrics", j(h.get_metrics())),
        ("set_service_name_len_max", j(h.set_service_name_len_max(30))),
        ("set_ip_check_interval", j(h.set_ip_check_interval(3))),
        ("get_ip_check_interval", j(h.get_ip_check_interval())),
        ("enable_interface", j(h.enable_interface(IfKind::All))),
        ("disable_interface", j(h.disable_interface(IfKind::IPv6))),
        ("accept_unsolicited", j(h.accept_unsolicited(true))),
        ("set_multicast_loop_v4", j(h.set_multicast_loop_v4(true))),
        ("set_multicast_loop_v6", j(h.set_multicast_loop_v6(true))),
        ("verify", j(h.verify("late._late._udp.local.".to_string(), Duration::from_secs(1)))),
    ]
}

/// Steps the daemon until the helper thread of a blocking call has returned (bounded).
fn settle_helper(w: &mut World, is: &Issued) {
    if let Some(hd) = &is.helper {
        let t0 = std::time::Instant::now();
        while !hd.is_finished() && t0.elapsed() < Duration::from_secs(5) {
            if w.ds[0].state != StepOut::Parked || w.ds[0].park.point.is_some() {
                break;
            }
            w.poke(0);
            std::thread::sleep(Duration::from_micros(200));
        }
    }
}

/// x = [command indices..., shutdown position, batching mask, window (0 none,1,2,3), extra call]
fn run_case(cmds: &[Cmd], pos: usize, batch_mask: u64, window: u64, extra: Cmd, second_shutdown: bool, trace: bool) -> CaseResult {
    run_case_pre(cmds, pos, batch_mask, window, extra, second_shutdown, false, trace)
}

/// `abandoned`: the pre-state also holds three browses of other types whose receivers the client
/// dropped after SearchStarted without calling stop_browse.
#[allow(clippy::too_many_arguments)]
fn run_case_pre(cmds: &[Cmd], pos: usize, batch_mask: u64, window: u64, extra: Cmd, second_shutdown: bool, abandoned: bool, trace: bool) -> CaseResult {
    let mut res = CaseResult::default();
    let mut w = World::one(lay_v4());
    w.trace = trace;
    w.ds[0].h.set_ip_check_interval(0).unwrap();
    w.ds[0].ctl.set_rng_default(0);
    w.poke(0);
    // pre-state: an announced service, a browse with a resolved instance, a hostname resolver
    // (a name with capital letters: the service map is keyed by the lower-case name)
    w.ds[0].h.register(svc("_t._tcp.local.", "One", "myhost.local.", "10.0.0.5", 80, &[])).unwrap();
    w.poke(0);
    let rx = w.ds[0].h.browse("_t._tcp.local.").unwrap();
    let b0 = w.add_browse(0, rx);
    w.poke(0);
    let rx = w.ds[0].h.resolve_hostname("h1.local.", None).unwrap();
    let h0 = w.add_host(0, rx);
    w.poke(0);
    if abandoned {
        let rxs: Vec<_> = ["_ab1._udp.local.", "_ab2._udp.local.", "_ab3._udp.local.", "_ab4._udp.local.", "_ab5._udp.local."].iter().map(|t| w.ds[0].h.browse(t).unwrap()).collect();
        w.poke(0);
        drop(rxs);
    }
    w.deliver(0, IF0, PEER0, build(&response(Inst::simple("inst", "h", [10, 0, 0, 9]).all(120))));
    w.advance(3000);
    w.ds[0].ctl.enable_exit_points(true);
    let lix = w.log.len();
    let h1 = w.ds[0].h.clone();
    let h2 = w.ds[0].h.clone();
    let mut issued: Vec<Issued> = vec![];
    let mut shutdown_rx: Option<Receiver<DaemonStatus>> = None;
    let mut shutdown_call: Result<(), String> = Ok(());
    let mut exit_queued = false;
    let mut stopped_t1_by_cmd = false;
    let mut stopped_h1_by_cmd = false;
    let mut unregistered_1 = false;
    let mut t1_replaced_by_cache = false;
    let mut executed: Vec<Cmd> = vec![];
    let total = cmds.len() + 1;
    let mut ci = 0;
    for k in 0..total {
        if k == pos {
            match h1.shutdown() {
                Ok(rx) => shutdown_rx = Some(rx),
                Err(e) => shutdown_call = Err(e.to_string()),
            }
            exit_queued = true;
        } else {
            let mut c = cmds[ci];
            ci += 1;
            // (a second clone's shutdown() queued earlier has put an Exit into the queue just the same)
            let exit_ahead = exit_queued || cmds[..ci - 1].contains(&Cmd::Shutdown2);
            if exit_ahead && c == Cmd::GetIpInterval {
                c = Cmd::Status; // a free-running thread cannot be placed behind Exit deterministically
            }
            if !exit_queued {
                match c {
                    Cmd::StopBrowse => stopped_t1_by_cmd = true,
                    Cmd::StopResolve => stopped_h1_by_cmd = true,
                    Cmd::Unregister1 => unregistered_1 = true,
                    Cmd::BrowseCache => t1_replaced_by_cache = true,
                    _ => {}
                }
                executed.push(c);
            }
            let is = issue(&mut w, &h1, c);
            if !exit_ahead {
                settle_helper(&mut w, &is);
            }
            issued.push(is);
        }
        // batching: poke now, or leave it queued for the next iteration
        if batch_mask & (1 << k) != 0 || k + 1 == total {
            w.poke(0);
            if w.ds[0].park.point.is_some() {
                break; // the daemon is on its exit path: the remaining commands are issued below
            }
        }
    }
    // commands not yet issued (the daemon reached its exit path before them) are issued now
    while ci < cmds.len() {
        let c = if cmds[ci] == Cmd::GetIpInterval { Cmd::Status } else { cmds[ci] };
        let is = issue(&mut w, &h1, c);
        issued.push(is);
        ci += 1;
    }
    // walk the exit path; in the chosen window a second client makes one more call
    let mut extra_issued: Option<(u64, Issued)> = None;
    let mut second: Option<Result<Receiver<DaemonStatus>, String>> = None;
    let mut guard = 0;
    loop {
        guard += 1;
        let point = w.ds[0].park.point;
        let cur_window = match (w.ds[0].state.clone(), point) {
            (StepOut::Parked, Some("exit:cleaned")) => 1,
            (StepOut::Parked, Some("exit:drained")) => 2,
            (StepOut::Parked, Some("exit:closed")) => 3,
            (StepOut::Exited { .. }, _) => 4,
            (StepOut::Parked, _) => 0,
            _ => 9,
        };
        if cur_window == window && extra_issued.is_none() {
            // the blocking call is only placed where the channel is already closed
            let extra = if extra == Cmd::GetIpInterval && window < 3 { Cmd::GetMetrics } else { extra };
            let mut is = issue(&mut w, &h2, extra);
            is.origin = format!("window-{}", ["none", "after-cleanup", "after-queue-drained-before-receiver-dropped", "after-channel-closed", "after-thread-ended"][window as usize]);
            extra_issued = Some((window, is));
            if second_shutdown {
                second = Some(h2.shutdown().map_err(|e| e.to_string()));
            }
        }
        // finality: once any caller holds the Shutdown status, every call on any clone fails
        for is in issued.iter_mut() {
            if let Some(rx) = &is.shutdown2 {
                if !is.shutdown2_seen && matches!(rx.try_recv(), Ok(DaemonStatus::Shutdown)) {
                    is.shutdown2_seen = true;
                    res.count("second_shutdown_answered", 1);
                    if let Ok(_rx) = h2.get_metrics() {
                        res.viols.push(viol("C14|call-accepted-after-a-caller-received-Shutdown", format!("queue {:?} shutdown at {pos} batching {batch_mask:#b}: get_metrics() accepted at exit point {:?} although the second shutdown() caller already holds Shutdown", cmds, w.ds[0].park.point)));
                    }
                }
            }
        }
        if cur_window == 4 || cur_window == 9 || guard > 14 {
            break;
        }
        w.step(0);
    }
    for is in issued.iter() {
        if let Some(rx) = &is.shutdown2 {
            if !is.shutdown2_seen && matches!(rx.try_recv(), Err(flume::TryRecvError::Empty)) {
                res.viols.push(viol("C14|queued-second-shutdown-caller-left-waiting", format!("queue {:?} shutdown at {pos} batching {batch_mask:#b}", cmds)));
            }
        }
    }
    res.transitions = w.steps;
    let ended = matches!(w.ds[0].state, StepOut::Exited { .. });
    let ctx = format!("queue {:?} with shutdown at {pos}, batching {batch_mask:#b}, extra {extra:?} in window {window}", cmds);
    if let Some(f) = daemon_fault(&w, 0) {
        if f.contains("panicked") || f.contains("park") {
            res.viols.push(viol(format!("C14|daemon-fault|{}", panic_sig(&f)), format!("{ctx}: {f}")));
            return res;
        }
    }
    if !ended {
        res.viols.push(viol("C14|daemon-thread-did-not-end-after-shutdown", ctx.clone()));
        return res;
    }
    res.count("shutdowns_completed", 1);
    // the shutdown caller gets Shutdown; if a second clone's shutdown() was queued ahead of it, that
    // one does, and this caller's channel may just be closed (its request was dropped unexecuted)
    let second_first = cmds.iter().take(pos).any(|c| *c == Cmd::Shutdown2);
    if second_first {
        let got = issued.iter().any(|is| is.shutdown2_seen || is.shutdown2.as_ref().is_some_and(|rx| matches!(rx.try_recv(), Ok(DaemonStatus::Shutdown))));
        if !got {
            res.viols.push(viol("C14|first-queued-shutdown-caller-did-not-receive-Shutdown", ctx.clone()));
        }
    }
    match (&shutdown_call, &shutdown_rx) {
        (Ok(()), Some(rx)) => match rx.try_recv() {
            Ok(DaemonStatus::Shutdown) => {}
            Err(flume::TryRecvError::Disconnected) if second_first => {}
            other => res.viols.push(viol("C14|shutdown-caller-did-not-receive-Shutdown", format!("{ctx}: {other:?}"))),
        },
        (Err(e), _) => res.viols.push(viol("C14|shutdown-call-failed", format!("{ctx}: {e}"))),
        _ => {}
    }
    // every reply receiver ever handed out holds a value or is closed
    for is in issued.iter_mut().chain(extra_issued.iter_mut().map(|x| &mut x.1)) {
        for p in &is.probes {
            res.count("reply_receivers_checked", 1);
            if p() == Reply::EmptyButConnected {
                res.viols.push(viol(format!("C14|reply-receiver-neither-value-nor-closed|{}|{}", is.what, is.origin), ctx.clone()));
            }
        }
        if let Some(hd) = is.helper.take() {
            let t0 = std::time::Instant::now();
            while !hd.is_finished() && t0.elapsed() < Duration::from_secs(3) {
                std::thread::sleep(Duration::from_millis(1));
            }
            if !hd.is_finished() {
                res.viols.push(viol(format!("C14|get_ip_check_interval-blocked-after-daemon-ended|{}", is.origin), ctx.clone()));
            } else {
                let _ = hd.join();
                res.count("blocking_calls_returned", 1);
            }
        }
    }
    // after the end every call on every clone fails with DaemonShutdown and status() says Shutdown
    for (label, hd) in [("first", &h1), ("second", &h2)] {
        let r = hd.browse("_late._udp.local.");
        if !matches!(r, Err(Error::DaemonShutdown)) {
            res.viols.push(viol("C14|call-after-shutdown-does-not-fail-with-DaemonShutdown", format!("{ctx}: {label} handle browse -> {:?}", r.map(|_| "Ok"))));
        }
        match hd.status().map(|rx| rx.try_recv()) {
            Ok(Ok(DaemonStatus::Shutdown)) => {}
            other => res.viols.push(viol("C14|status-after-shutdown-is-not-Shutdown", format!("{ctx}: {label} handle -> {other:?}"))),
        }
        let r = hd.shutdown();
        if !matches!(r, Err(Error::DaemonShutdown)) {
            res.viols.push(viol("C14|second-shutdown-does-not-fail-with-DaemonShutdown", format!("{ctx}: {:?}", r.map(|_| "Ok"))));
        }
        // ... every other call of the API too, with exactly that error
        for (name, r) in every_call(hd) {
            res.count("calls_after_the_end_checked", 1);
            if let Some(other) = r {
                res.viols.push(viol(format!("C14|call-after-shutdown-does-not-fail-with-DaemonShutdown|{name}"), format!("{ctx}: {label} handle {name} -> {other}")));
            }
        }
    }
    // calls made in windows 2 and 3 must fail with DaemonShutdown (or status yields Shutdown)
    if let Some((wd, is)) = &extra_issued {
        if *wd >= 3 && is.result.is_ok() && !matches!(extra, Cmd::Status | Cmd::GetIpInterval) {
            res.viols.push(viol(format!("C14|call-accepted-after-the-command-channel-closed|{:?}", extra), ctx.clone()));
        }
        res.count("window_calls", 1);
    }
    if let Some(Ok(rx)) = &second {
        if matches!(rx.try_recv(), Err(flume::TryRecvError::Empty)) {
            let origin = extra_issued.as_ref().map_or("none".to_string(), |(_, is)| is.origin.clone());
            res.viols.push(viol(format!("C14|second-shutdown-caller-left-waiting|{origin}"), ctx.clone()));
        }
    }
    // clean-up happened exactly once
    w.drain(0);
    let after: Vec<&Ev> = w.log[lix..].iter().collect();
    let stopped = |ch: usize, host: bool| -> usize {
        after.iter().filter(|e| match &e.kind {
            Kind::B(c, BEv::Stopped(_)) if !host => *c == ch,
            Kind::H(c, HEv::Stopped(_)) if host => *c == ch,
            _ => false,
        }).count()
    };
    // a browse_cache for the same type replaced the listener of the open browse
    if t1_replaced_by_cache {
        if stopped(b0, false) > 1 {
            res.viols.push(viol("C14|SearchStopped-twice-on-replaced-browse", ctx.clone()));
        }
    } else if stopped(b0, false) != 1 {
        res.viols.push(viol(format!("C14|SearchStopped-count-on-open-browse|{}", stopped(b0, false).min(2)), format!("{ctx} (stopped by an earlier command: {stopped_t1_by_cmd})")));
    }
    if stopped(h0, true) != 1 {
        res.viols.push(viol(format!("C14|SearchStopped-count-on-open-resolver|{}", stopped(h0, true).min(2)), format!("{ctx} (stopped by an earlier command: {stopped_h1_by_cmd})")));
    }
    // channels opened by queued commands: SearchStopped once if the command was executed, and closed in the end
    for is in &issued {
        if let Some((kind, ch)) = is.event_ch {
            let got_started = after.iter().any(|e| match &e.kind {
                Kind::B(c, BEv::Started(_)) if kind != 'H' => *c == ch,
                Kind::H(c, HEv::Started(_)) if kind == 'H' => *c == ch,
                _ => false,
            });
            let n = stopped(ch, kind == 'H');
            // replaced by a later command of the same kind that was executed too: 0 or 1;
            // cache-only: one at creation, possibly one more at shutdown
            let same_kind_later = executed.iter().filter(|c| format!("{c:?}") == is.what).count() > 1 && issued.iter().position(|x| std::ptr::eq(x, is)).is_some_and(|p| issued[p + 1..].iter().any(|y| y.what == is.what));
            let ok = if kind == 'C' { (1..=2).contains(&n) } else if same_kind_later { n <= 1 } else { n == 1 };
            if got_started && !ok {
                res.viols.push(viol(format!("C14|SearchStopped-count-on-channel-opened-in-the-queue|{}|{}", is.what, n.min(2)), ctx.clone()));
            }
            let closed = after.iter().any(|e| matches!(&e.kind, Kind::Closed(k, c) if *c == ch && ((*k == 'H') == (kind == 'H'))));
            if !closed {
                res.viols.push(viol(format!("C14|event-channel-still-open-after-daemon-ended|{}", is.what), ctx.clone()));
            }
        }
    }
    // goodbye for the announced service: exactly once (by unregister or by shutdown)
    let goodbyes = after.iter().filter(|e| matches!(&e.kind, Kind::Out(o) if o.msg.as_ref().is_ok_and(|m| m.is_response() && m.answers.iter().any(|r| r.rtype == T_PTR && r.ttl == 0 && matches!(&r.rd, RD::Ptr(t) if name_eq_ci(t, &n("one._t._tcp.local"))))))).count();
    if goodbyes != 1 {
        res.viols.push(viol(format!("C14|goodbye-count-for-registered-service|{}", goodbyes.min(2)), format!("{ctx} (unregistered by an earlier command: {unregistered_1})")));
    }
    res.nontrivial = true;
    res.outcome = outcome_hash(&w.log[lix..]);
    // the daemon is gone at the end: the observable end state (events, packets, replies) stands in
    res.states = vec![res.outcome];
    res
}

/// Deviation: a held, never-read browse receiver with more than 10 undelivered events.
fn run_undrained(trace: bool) -> CaseResult {
    let mut res = CaseResult { nontrivial: true, ..Default::default() };
    let mut w = World::one(lay_v4());
    w.trace = trace;
    w.hang = Duration::from_millis(400);
    w.poke(0);
    let rx = w.ds[0].h.browse("_t._tcp.local.").unwrap();
    let ch = w.add_browse(0, rx);
    w.ds[0].hold_b.push(ch);
    w.poke(0);
    let mut blocked_at = None;
    for j in 0..14 {
        let i = Inst::simple(&format!("i{j}"), "h", [10, 0, 0, 9]);
        w.deliver(0, IF0, PEER0, build(&response(vec![i.ptr(120)])));
        if w.ds[0].state == StepOut::Hung {
            blocked_at = Some(j);
            break;
        }
    }
    res.transitions = w.steps;
    match blocked_at {
        Some(j) => {
            // a shutdown issued now gets no reply while the receiver is held
            let r = w.ds[0].h.shutdown();
            let waiting = r.as_ref().map(|rx| matches!(rx.recv_timeout(Duration::from_millis(300)), Err(flume::RecvTimeoutError::Timeout))).unwrap_or(false);
            res.viols.push(viol(
                "C14|deviation-undrained-event-channel|daemon-blocks-on-full-channel-and-shutdown-gets-no-reply",
                format!("browse receiver held and never read: the daemon thread blocked after {} undelivered events; shutdown() reply pending: {waiting}", j + 1),
            ));
        }
        None => res.count("no_block", 1),
    }
    res.outcome = blocked_at.map_or(0, |j| j as u128 + 1);
    res
}

// ---------------------------------------------------------------- shutdown while a client is behind with reading

/// A browse and a hostname search are open and their client has not read anything yet; `k` events
/// are queued on each channel behind SearchStarted (the channels hold 10).  Then shutdown.  The client
/// is slow but alive: it reads as soon as the daemon waits for it.  Every channel must still end with
/// SearchStopped as its last event, and the shutdown caller gets Shutdown.
pub fn run_full_channel(prop: &str, k: u64, trace: bool) -> CaseResult {
    let mut res = CaseResult::default();
    let mut w = World::one(lay_v4());
    w.trace = trace;
    w.release_when_blocked = true;
    w.ds[0].h.set_ip_check_interval(0).unwrap();
    w.poke(0);
    let rx = w.ds[0].h.browse("_t._tcp.local.").unwrap();
    let b = w.add_browse(0, rx);
    let rx = w.ds[0].h.resolve_hostname("hh.local.", None).unwrap();
    let h = w.add_host(0, rx);
    w.ds[0].hold_b.push(b);
    w.ds[0].hold_h.push(h);
    w.poke(0);
    // k new instances (PTR only: one ServiceFound each) and k addresses of the searched host (one
    // AddressesFound each) in one packet
    let ty = n("_t._tcp.local");
    let mut recs = vec![];
    for j in 0..k {
        recs.push(ptr(&ty, &n(&format!("i{j}._t._tcp.local")), 120));
        recs.push(a(&n("hh.local"), [10, 0, 0, 100 + j as u8], 120));
    }
    if !recs.is_empty() {
        w.deliver(0, IF0, PEER0, build(&response(recs)));
    }
    let rx = w.ds[0].h.shutdown();
    for _ in 0..8 {
        if !matches!(w.ds[0].state, StepOut::Parked) {
            break;
        }
        w.step(0);
    }
    w.ds[0].hold_b.clear();
    w.ds[0].hold_h.clear();
    w.drain(0);
    res.count("full_channel_cases", 1);
    let ctx = format!("{k} events queued behind SearchStarted on each channel");
    let bl: Vec<BEv> = bevs(&w, 0, b, 0).into_iter().map(|x| x.1).collect();
    let hl: Vec<HEv> = hevs(&w, 0, h, 0).into_iter().map(|x| x.1).collect();
    if !matches!(bl.last(), Some(BEv::Stopped(_))) {
        res.viols.push(viol(format!("{prop}|slow-client|browse-channel-does-not-end-with-SearchStopped"), format!("{ctx}: {} events, last {:?}", bl.len(), bl.last())));
    }
    if !matches!(hl.last(), Some(HEv::Stopped(_))) {
        res.viols.push(viol(format!("{prop}|slow-client|hostname-channel-does-not-end-with-SearchStopped"), format!("{ctx}: {} events, last {:?}", hl.len(), hl.last())));
    }
    if bl.iter().filter(|e| matches!(e, BEv::Found(..))).count() as u64 != k {
        res.viols.push(viol(format!("{prop}|slow-client|ServiceFound-events-lost"), format!("{ctx}: {:?}", bl.iter().map(|e| format!("{e:?}")).collect::<Vec<_>>())));
    }
    match rx.map(|r| r.try_recv()) {
        Ok(Ok(DaemonStatus::Shutdown)) => {}
        other => res.viols.push(viol(format!("{prop}|slow-client|shutdown-caller-did-not-receive-Shutdown"), format!("{ctx}: {other:?}"))),
    }
    if let Some(f) = daemon_fault(&w, 0) {
        if f.contains("panicked") || f.contains("park within") {
            res.viols.push(viol(format!("{prop}|slow-client|daemon-fault"), format!("{ctx}: {f}")));
        }
    }
    res.nontrivial = true;
    res.transitions = w.steps;
    res.outcome = fnv128(format!("{bl:?}{hl:?}").as_bytes());
    res
}

/// Shutdown on a dual-stack interface: the goodbye for a registered service goes out over every
/// IP family the service was announced over.  x = [service addresses: 0 IPv4 / 1 IPv6 / 2 both].
fn run_goodbye_families(x: u64, trace: bool) -> CaseResult {
    let mut res = CaseResult::default();
    let mut w = World::one(lay_dual());
    w.trace = trace;
    w.ds[0].h.set_ip_check_interval(0).unwrap();
    w.poke(0);
    let ips = ["10.0.0.5", "fd00::5", "10.0.0.5,fd00::5"][x as usize];
    w.ds[0].h.register(svc("_t._tcp.local.", "One", "myhost.local.", ips, 80, &[])).unwrap();
    w.poke(0);
    w.advance(3000);
    let inst = n("One._t._tcp.local");
    let ty = n("_t._tcp.local");
    let names_it = |m: &Msg, ttl0: bool| m.is_response() && m.answers.iter().any(|r| r.rtype == T_PTR && (r.ttl == 0) == ttl0 && name_eq_ci(&r.name, &ty) && matches!(&r.rd, RD::Ptr(t) if name_eq_ci(t, &inst)));
    // families it was announced over
    let announced: Vec<bool> = [false, true].iter().map(|v6| outs(&w, 0, 0).iter().any(|(_, o)| o.dst.is_ipv6() == *v6 && o.msg.as_ref().is_ok_and(|m| names_it(m, false)))).collect();
    let lix = w.log.len();
    let rx = w.ds[0].h.shutdown().unwrap();
    w.poke(0);
    for _ in 0..10 {
        if !matches!(w.ds[0].state, StepOut::Parked) {
            break;
        }
        w.step(0);
    }
    let got = matches!(rx.try_recv(), Ok(DaemonStatus::Shutdown));
    for (k, fam) in ["IPv4", "IPv6"].iter().enumerate() {
        let goodbyes = outs(&w, 0, lix).iter().filter(|(_, o)| o.dst.is_ipv6() == (k == 1) && o.is_multicast() && o.msg.as_ref().is_ok_and(|m| names_it(m, true))).count();
        res.count("families_checked", 1);
        if announced[k] && goodbyes != 1 {
            res.viols.push(viol(format!("C14|goodbye-at-shutdown-count|{fam}|{}", goodbyes.min(2)), format!("service with addresses {ips} on a dual-stack interface, announced over {fam}: {goodbyes} goodbye(s) over {fam} at shutdown (status received: {got})")));
        }
        if !announced[k] && goodbyes != 0 {
            res.viols.push(viol(format!("C14|goodbye-at-shutdown-where-never-announced|{fam}"), format!("addresses {ips}")));
        }
        if announced[k] {
            res.count("goodbyes_expected", 1);
        }
    }
    res.nontrivial = true;
    res.transitions = w.steps;
    res.outcome = outcome_hash(&w.log);
    res
}

pub fn check(tier: &str) -> i32 {
    let mut rep = Report::new("C14", tier, "model_checking");
    let thorough = rep.thorough();
    rep.assume("every public call performs at most: is_disconnected, one try_send, one UDP send; each is linearizable against the daemon's dequeue / drop, so placing whole calls at the gate and exit park points reaches every distinguishable channel state");
    rep.assume("default environment: the client drains its event channels; the undrained-channel deviation is explored and reported separately");
    let nc = CMDS.len() as u64;
    // N = 1: every command x both positions x both batchings x (no window | 3 windows x 6 extra calls)
    let extras = [Cmd::Browse2, Cmd::Register2, Cmd::Status, Cmd::Unregister1, Cmd::GetMetrics, Cmd::GetIpInterval];
    let ne = extras.len() as u64;
    let d1 = [nc, 2, 4, 1 + 4 * ne + 1];
    let one = FnPart {
        name: "one-command-and-shutdown".into(),
        rule: "every externally reachable command kind (17, incl. a second shutdown() from another clone) with shutdown before or after it x every split of the two commands into loop iterations x (no further call | one further call of 6 kinds from a second handle clone in each of the 4 exit windows: after clean-up, after the queue was drained but before the receiver is dropped, after the command channel closed, after the thread ended | no further call but five browses of other types in the pre-state whose receivers the client dropped without stop_browse)".into(),
        n: product(&d1),
        describe: Box::new(move |i| { let x = unrank(i, &d1); format!("{:?} shutdown-pos {} batching {:#b} window/extra {}", CMDS[x[0] as usize], x[1], x[2], x[3]) }),
        run: Box::new(move |i, tr| {
            let x = unrank(i, &d1);
            if x[3] == 1 + 4 * ne {
                // no further call, but five abandoned browses in the pre-state
                return run_case_pre(&[CMDS[x[0] as usize]], x[1] as usize, x[2], 0, Cmd::Status, false, true, tr);
            }
            let (window, extra) = if x[3] == 0 { (0, Cmd::Status) } else { (1 + (x[3] - 1) / ne, extras[((x[3] - 1) % ne) as usize]) };
            run_case(&[CMDS[x[0] as usize]], x[1] as usize, x[2], window, extra, false, tr)
        }),
    };
    rep.run_part(&one, Duration::from_secs(if thorough { 1200 } else { 40 }));
    // N = 2: all ordered pairs x 3 positions x 8 batchings (x windows with one extra kind in thorough)
    let wdim = if thorough { 5 } else { 1 };
    let d2 = [nc, nc, 3, 8, wdim];
    let two = FnPart {
        name: "two-commands-and-shutdown".into(),
        rule: "every ordered pair of command kinds x every position of shutdown among them x every split into loop iterations (thorough: x a status() call from a second clone in each exit window)".into(),
        n: product(&d2),
        describe: Box::new(move |i| { let x = unrank(i, &d2); format!("{:?},{:?} shutdown-pos {} batching {:#b} window {}", CMDS[x[0] as usize], CMDS[x[1] as usize], x[2], x[3], x[4]) }),
        run: Box::new(move |i, tr| {
            let x = unrank(i, &d2);
            run_case(&[CMDS[x[0] as usize], CMDS[x[1] as usize]], x[2] as usize, x[3], x[4], Cmd::Status, x[4] > 0, tr)
        }),
    };
    rep.run_part(&two, Duration::from_secs(if thorough { 2400 } else { 50 }));
    if thorough {
        let d3 = [nc, nc, nc, 4];
        let three = FnPart {
            name: "three-commands-and-shutdown".into(),
            rule: "every ordered triple of command kinds x every position of shutdown, everything in one batch and one command per iteration".into(),
            n: product(&d3) * 2,
            describe: Box::new(move |i| { let x = unrank(i / 2, &d3); format!("{:?},{:?},{:?} pos {} batch-all {}", CMDS[x[0] as usize], CMDS[x[1] as usize], CMDS[x[2] as usize], x[3], i % 2) }),
            run: Box::new(move |i, tr| {
                let x = unrank(i / 2, &d3);
                run_case(&[CMDS[x[0] as usize], CMDS[x[1] as usize], CMDS[x[2] as usize]], x[3] as usize, if i % 2 == 0 { 0 } else { 0xF }, 0, Cmd::Status, false, tr)
            }),
        };
        rep.run_part(&three, Duration::from_secs(3000));
    }
    let fc = FnPart {
        name: "shutdown-with-a-slow-client".into(),
        rule: "a browse and a hostname search whose client has read nothing; k in {0, 3, 8, 9, 10, 12} events queued behind SearchStarted on each channel (capacity 10), then shutdown; the client reads as soon as the daemon waits for it; every channel must end with SearchStopped, nothing may be lost".into(),
        n: 6,
        describe: Box::new(|i| format!("k = {}", [0, 3, 8, 9, 10, 12][i as usize])),
        run: Box::new(|i, tr| run_full_channel("C14", [0, 3, 8, 9, 10, 12][i as usize], tr)),
    };
    rep.run_part(&fc, Duration::from_secs(120));
    rep.require("shutdown-with-a-slow-client", "full_channel_cases");
    let und = FnPart {
        name: "deviation-undrained-channel".into(),
        rule: "deviation from the default environment: a browse receiver is held and never read while 14 instances are announced".into(),
        n: 1,
        describe: Box::new(|_| "held browse receiver, 14 PTR announcements".into()),
        run: Box::new(|_, tr| run_undrained(tr)),
    };
    rep.run_part(&und, Duration::from_secs(60));
    rep.require("one-command-and-shutdown", "shutdowns_completed");
    rep.require("one-command-and-shutdown", "reply_receivers_checked");
    rep.require("one-command-and-shutdown", "window_calls");
    rep.require("one-command-and-shutdown", "blocking_calls_returned");
    let gf = FnPart {
        name: "shutdown-goodbye-over-every-family".into(),
        rule: "a dual-stack interface; a service with (an IPv4 | an IPv6 | both) address(es), announced; shutdown: exactly one goodbye over every IP family the service was announced over, none elsewhere".into(),
        n: 3,
        describe: Box::new(|i| format!("addresses {}", ["IPv4", "IPv6", "both"][i as usize])),
        run: Box::new(|i, tr| run_goodbye_families(i, tr)),
    };
    rep.run_part(&gf, Duration::from_secs(60));
    rep.require("shutdown-goodbye-over-every-family", "goodbyes_expected");
    rep.finish()
}
