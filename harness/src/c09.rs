//! C09 — unregistering says goodbye for exactly what was announced, then goes quiet (Engine S).
use crate::fw::*;
use crate::indep::*;
use crate::scn::*;
use crate::sim::*;
use mdns_sd::verif::SimIntf;
use mdns_sd::{Receiver, UnregisterStatus};
use std::collections::{BTreeMap, BTreeSet};
use std::time::Duration;

#[derive(Clone, Copy, Debug, PartialEq)]
enum Op {
    Reg1,
    Reg1NewPort,
    Reg2,
    Conflict1,
    Unreg1,
    Unreg1OtherCase,
    UnregUnknown,
    Unreg2,
    Idle300,
    Idle2s,
    Shutdown,
}
const OPS: [Op; 11] = [
    Op::Reg1,
    Op::Reg1NewPort,
    Op::Reg2,
    Op::Conflict1,
    Op::Unreg1,
    Op::Unreg1OtherCase,
    Op::UnregUnknown,
    Op::Unreg2,
    Op::Idle300,
    Op::Idle2s,
    Op::Shutdown,
];

struct Scn {
    layout: usize,
    /// instance-name shape of S1: 0 "one", 1 non-ASCII capital letters, 2 a dot inside the label
    shape: usize,
    /// own multicasts are heard back (IP_MULTICAST_LOOP, the crate's default)
    loopback: bool,
}
const SHAPES: [(&str, &str, &str); 3] = [
    // (tag, instance label, the same label with only its ASCII letters in the other case)
    ("plain", "one", "ONE"),
    ("non-ascii-capitals", "Ünal Büro", "ÜNAL BüRO"),
    ("dotted-label", "My.Printer", "mY.pRINTER"),
];

struct Run {
    w: World,
    intfs: Vec<SimIntf>,
    ipstr: String,
    /// (virtual time, log index before the op, op, unregister reply)
    hist: Vec<(u64, usize, Op, Option<Result<bool, String>>)>,
    shutdown_rx: Option<Receiver<mdns_sd::DaemonStatus>>,
    down: bool,
    viols: Vec<Viol>,
    counters: Vec<(&'static str, u64)>,
}

fn layouts() -> Vec<(&'static str, Vec<SimIntf>)> {
    vec![("v4", lay_v4()), ("dual", lay_dual()), ("two-subnets", lay_two())]
}

/// Which service (0 = S1 on _t._tcp, 1 = S2 on _u._udp) a type name belongs to.
fn svc_of_type(nm: &Name) -> Option<usize> {
    if name_eq_ci(nm, &n("_t._tcp.local")) {
        Some(0)
    } else if name_eq_ci(nm, &n("_u._udp.local")) {
        Some(1)
    } else {
        None
    }
}

/// Record identity for goodbye comparison: owner, type, and RDATA where names matter.
fn ident(r: &Record) -> (Name, u16, String) {
    let rd = match &r.rd {
        RD::Ptr(t) => format!("ptr:{}", show_name(&lower(t))),
        RD::Srv { target, .. } => format!("srv-target:{}", show_name(&lower(target))),
        RD::Txt(_) => "txt".to_string(),
        RD::A(a) => format!("a:{a:?}"),
        RD::Aaaa(a) => format!("aaaa:{a:?}"),
        other => format!("{other:?}"),
    };
    (lower(&r.name), r.rtype, rd)
}

impl Scn {
    fn analyse(&self, run: &mut Run) {
        let w = &run.w;
        // all packets with log index
        let pk: Vec<(usize, u64, &Out)> = w
            .log
            .iter()
            .enumerate()
            .filter_map(|(ix, e)| match &e.kind {
                Kind::Out(o) => Some((ix, e.t, o)),
                _ => None,
            })
            .collect();
        let if_fams: Vec<(u32, bool)> = {
            let mut v: Vec<(u32, bool)> = run.intfs.iter().map(|i| (i.index, i.ip.is_ipv4())).collect();
            v.sort();
            v.dedup();
            v
        };
        // service -> which PTR(ty -> X) packets are announcements (ttl > 0) or goodbyes (ttl 0)
        let ptr_for = |m: &Msg, s: usize, goodbye: bool| -> bool {
            m.is_response()
                && m.answers.iter().any(|r| {
                    r.rtype == T_PTR && svc_of_type(&r.name) == Some(s) && (r.ttl == 0) == goodbye
                })
        };
        let mut registered: BTreeMap<usize, u64> = BTreeMap::new(); // svc -> time of last register
        let mut last_unreg: BTreeMap<usize, u64> = BTreeMap::new();
        let mut silence_from: BTreeMap<usize, (u64, usize)> = BTreeMap::new();
        let hist: Vec<_> = run.hist.iter().map(|h| (h.0, h.1, h.2, h.3.clone())).collect();
        for (hi, (t, lix, op, reply)) in hist.iter().enumerate() {
            let next_lix = hist.get(hi + 1).map(|h| h.1).unwrap_or(w.log.len());
            let mut goodbye_for: Vec<(usize, bool)> = vec![]; // (svc, expect repeat)
            match op {
                Op::Reg1 | Op::Reg1NewPort => {
                    registered.insert(0, *t);
                    silence_from.remove(&0);
                }
                Op::Reg2 => {
                    registered.insert(1, *t);
                    silence_from.remove(&1);
                }
                Op::Unreg1 | Op::Unreg1OtherCase | Op::Unreg2 | Op::UnregUnknown => {
                    let s = match op {
                        Op::Unreg2 => Some(1),
                        Op::UnregUnknown => None,
                        _ => Some(0),
                    };
                    let exp_ok = s.is_some_and(|s| registered.contains_key(&s));
                    run.counters.push(("unregister_replies_checked", 1));
                    match reply {
                        Some(Ok(true)) if exp_ok => {}
                        Some(Ok(false)) if !exp_ok => {}
                        other => run.viols.push(viol(
                            format!("C09|unregister-reply-wrong|expected-{}", if exp_ok { "OK" } else { "NotFound" }),
                            format!("{op:?} at +{}: reply {:?}", t - T0, other),
                        )),
                    }
                    if exp_ok {
                        let s = s.unwrap();
                        registered.remove(&s);
                        last_unreg.insert(s, *t);
                        silence_from.insert(s, (*t, next_lix));
                        goodbye_for.push((s, true));
                    }
                }
                Op::Shutdown => {
                    for s in registered.keys().copied().collect::<Vec<_>>() {
                        goodbye_for.push((s, false));
                        silence_from.insert(s, (*t, next_lix));
                    }
                    registered.clear();
                }
                _ => {}
            }
            for (s, repeat) in goodbye_for {
                for &(ifi, fam4) in &if_fams {
                    // last announcement of s on (ifi, family) since its last register
                    let since = pk.iter().filter(|(ix, _, o)| {
                        *ix < *lix && o.if_index == Some(ifi) && o.v4() == fam4 && o.is_multicast()
                    });
                    let reg_t = last_unreg.get(&s).copied().filter(|u| u < t).unwrap_or(0);
                    let _ = reg_t;
                    let ann = since
                        .filter(|(_, _, o)| o.msg.as_ref().is_ok_and(|m| ptr_for(m, s, false) && m.answers.iter().any(|r| r.rtype == T_SRV)))
                        .filter(|(_, pt, _)| {
                            // only announcements after the previous unregister of s (if any)
                            hist[..hi].iter().rev().find(|h| matches!((h.2, s), (Op::Unreg1, 0) | (Op::Unreg1OtherCase, 0) | (Op::Unreg2, 1)) && matches!(h.3, Some(Ok(true)))).map_or(true, |h| *pt >= h.0)
                        })
                        .last();
                    // goodbye packets of s on (ifi, family) produced by this op's iteration
                    let gb: Vec<&(usize, u64, &Out)> = pk
                        .iter()
                        .filter(|(ix, pt, o)| *ix >= *lix && *ix < next_lix.max(*lix + 1) && *pt == *t && o.if_index == Some(ifi) && o.v4() == fam4 && o.msg.as_ref().is_ok_and(|m| ptr_for(m, s, true)))
                        .collect();
                    let tag = format!("svc{} if{} {}", s, ifi, if fam4 { "v4" } else { "v6" });
                    match ann {
                        None => {
                            if !gb.is_empty() {
                                run.viols.push(viol(
                                    "C09|goodbye-for-a-name-never-announced-there",
                                    format!("{tag} {op:?} at +{}: {}", t - T0, gb[0].2.msg.as_ref().unwrap().summary()),
                                ));
                            } else {
                                run.counters.push(("no_goodbye_where_not_announced", 1));
                            }
                        }
                        Some((aix, _, a)) => {
                            run.counters.push(("goodbyes_expected", 1));
                            // Don't-care: a conflict took the announced name away after the last
                            // announcement (while a re-registration was being probed) and the service
                            // has not been announced under its new name yet.  The old name now belongs
                            // to the other host (its PTR is the very same record), so staying silent is
                            // accepted; a goodbye that is sent is still compared below.
                            let ceded = hist[..hi].iter().any(|h| h.2 == Op::Conflict1 && h.1 > *aix);
                            if ceded && gb.is_empty() {
                                run.counters.push(("silent_about_a_name_ceded_to_a_conflict", 1));
                                continue;
                            }
                            if gb.len() != 1 {
                                run.viols.push(viol(
                                    format!("C09|goodbye-count|{}", gb.len().min(2)),
                                    format!("{tag} {op:?} at +{}: {} goodbye datagrams", t - T0, gb.len()),
                                ));
                                if gb.is_empty() {
                                    continue;
                                }
                            }
                            let am = a.msg.as_ref().unwrap();
                            let gm = gb[0].2.msg.as_ref().unwrap();
                            let want: BTreeSet<_> = am.answers.iter().map(ident).collect();
                            let got: BTreeSet<_> = gm.answers.iter().map(ident).collect();
                            if gm.answers.iter().any(|r| r.ttl != 0) {
                                run.viols.push(viol("C09|goodbye-record-with-nonzero-ttl", format!("{tag}: {}", gm.summary())));
                            }
                            if want != got {
                                let missing: Vec<_> = want.difference(&got).map(|x| format!("{} t{} {}", show_name(&x.0), x.1, x.2)).collect();
                                let extra: Vec<_> = got.difference(&want).map(|x| format!("{} t{} {}", show_name(&x.0), x.1, x.2)).collect();
                                let kind = if missing.iter().any(|m| m.contains("(2)") || m.contains("-2")) { "renamed-records-missing" } else { "records-differ" };
                                run.viols.push(viol(
                                    format!("C09|goodbye-not-what-was-announced|{kind}"),
                                    format!("{tag} {op:?}: missing {missing:?} extra {extra:?}; announced {} ; goodbye {}", am.summary(), gm.summary()),
                                ));
                            }
                            if repeat {
                                let rep: Vec<_> = pk
                                    .iter()
                                    .filter(|(_, pt, o)| *pt >= *t + 100 && *pt <= *t + 150 && o.if_index == Some(ifi) && o.v4() == fam4 && o.data == gb[0].2.data)
                                    .collect();
                                if rep.len() != 1 && !run.down {
                                    run.viols.push(viol(
                                        "C09|goodbye-not-repeated-once-after-120ms",
                                        format!("{tag} {op:?} at +{}: {} identical datagrams in +100..150 ms", t - T0, rep.len()),
                                    ));
                                } else {
                                    run.counters.push(("goodbye_repeats_seen", 1));
                                }
                            }
                        }
                    }
                }
            }
        }
        // silence after unregister / shutdown
        for (s, (t, lix)) in silence_from {
            for (ix, pt, o) in &pk {
                if *ix < lix || *pt < t {
                    continue;
                }
                if let Ok(m) = &o.msg {
                    if m.is_response() && m.all_records().any(|r| r.ttl > 0 && (svc_of_type(&r.name) == Some(s) && r.rtype == T_PTR)) {
                        run.viols.push(viol(
                            "C09|service-announced-or-answered-after-unregister",
                            format!("svc{s} unregistered at +{}, at +{}: {}", t - T0, pt - T0, m.summary()),
                        ));
                    }
                }
            }
            run.counters.push(("silence_windows_checked", 1));
        }
    }
}

impl Scenario for Scn {
    type Run = Run;
    fn name(&self) -> String {
        if self.loopback {
            format!("unregister-sequences-{}-multicast-loop", layouts()[self.layout].0)
        } else if self.shape == 0 {
            format!("unregister-sequences-{}", layouts()[self.layout].0)
        } else {
            format!("unregister-sequences-{}-{}", layouts()[self.layout].0, SHAPES[self.shape].0)
        }
    }
    fn rule(&self) -> String {
        "all sequences over {register S1, re-register S1 with a new port, register S2 (other type), conflicting response for S1's name, unregister S1 exact / other letter case / unknown name, unregister S2, idle 300 ms, idle 2 s, shutdown}; states de-duplicated on daemon dump + reference state".into()
    }
    fn setup(&self) -> Run {
        let (_, intfs) = layouts().swap_remove(self.layout);
        let mut ips = vec!["10.0.0.5".to_string()];
        if intfs.iter().any(|i| i.ip.is_ipv6()) {
            ips.push("fd00::5".into());
        }
        if intfs.iter().any(|i| i.index == IF1) {
            ips.push("10.0.1.5".into());
        }
        let mut w = World::one(intfs.clone());
        w.loopback = w.loopback || self.loopback;
        w.ds[0].h.set_ip_check_interval(3600).unwrap();
        w.ds[0].ctl.set_rng_default(0);
        w.poke(0);
        Run { w, intfs, ipstr: ips.join(","), hist: vec![], shutdown_rx: None, down: false, viols: vec![], counters: vec![] }
    }
    fn menu(&self, run: &Run) -> Vec<String> {
        if run.down {
            return vec![];
        }
        OPS.iter().map(|o| format!("{o:?}")).collect()
    }
    fn apply(&self, run: &mut Run, choice: usize) {
        let op = OPS[choice];
        let t = run.w.now;
        let lix = run.w.log.len();
        let mut reply = None;
        let w = &mut run.w;
        match op {
            Op::Reg1 => {
                w.ds[0].h.register(svc("_t._tcp.local.", SHAPES[self.shape].1, "host.local.", &run.ipstr, 80, &[("k", "v")])).unwrap();
                w.poke(0);
            }
            Op::Reg1NewPort => {
                w.ds[0].h.register(svc("_t._tcp.local.", SHAPES[self.shape].1, "host.local.", &run.ipstr, 8080, &[("k", "v")])).unwrap();
                w.poke(0);
            }
            Op::Reg2 => {
                w.ds[0].h.register(svc("_s._sub._u._udp.local.", "two", "host.local.", &run.ipstr, 81, &[])).unwrap();
                w.poke(0);
            }
            Op::Conflict1 => {
                // another host claims S1's instance name with different SRV data
                let mut inst: Name = vec![SHAPES[self.shape].1.as_bytes().to_vec()];
                inst.extend(n("_t._tcp.local"));
                let m = response(vec![srv(&inst, &n("elsewhere.local"), 9, 120)]);
                w.deliver(0, IF0, PEER0, build(&m));
            }
            Op::Unreg1 | Op::Unreg1OtherCase | Op::UnregUnknown | Op::Unreg2 => {
                let name = match op {
                    // the full name as ServiceInfo::get_fullname spells it: dots inside the instance label escaped
                    Op::Unreg1 => format!("{}._t._tcp.local.", SHAPES[self.shape].1.replace('.', "\\.")),
                    Op::Unreg1OtherCase => format!("{}._T._tcp.LOCAL.", SHAPES[self.shape].2.replace('.', "\\.")),
                    Op::UnregUnknown => "nobody._t._tcp.local.".to_string(),
                    _ => "two._u._udp.local.".to_string(),
                };
                let rx = w.ds[0].h.unregister(&name).unwrap();
                w.poke(0);
                reply = Some(rx.try_recv().map(|s| matches!(s, UnregisterStatus::OK)).map_err(|e| format!("{e:?}")));
            }
            Op::Idle300 => w.advance(300),
            Op::Idle2s => w.advance(2000),
            Op::Shutdown => {
                run.shutdown_rx = w.ds[0].h.shutdown().ok();
                w.poke(0);
                run.down = true;
            }
        }
        run.hist.push((t, lix, op, reply));
    }
    fn digest(&self, run: &mut Run) -> u128 {
        let mut s = run.w.dump(0).unwrap_or_else(|| "down".into());
        // reference-relevant history: which services were announced where since their last
        // unregister, and the ops still inside their +150 ms goodbye-repeat window
        for (t, _, op, r) in &run.hist {
            if run.w.now - t <= 150 {
                s.push_str(&format!("recent {op:?} {} {:?}\n", run.w.now - t, r.as_ref().map(|x| x.is_ok())));
            }
        }
        let mut ann: BTreeSet<String> = BTreeSet::new();
        for e in &run.w.log {
            if let Kind::Out(o) = &e.kind {
                if let Ok(m) = &o.msg {
                    if m.is_response() && o.is_multicast() {
                        for r in &m.answers {
                            if r.rtype == T_PTR {
                                ann.insert(format!("{:?} {} {} ttl0={}", o.if_index, o.v4(), r.summary(), r.ttl == 0));
                            }
                        }
                    }
                }
            }
        }
        s.push_str(&format!("{ann:?}"));
        fnv128(s.as_bytes())
    }
    fn finish(&self, run: &mut Run) {
        if !run.down {
            // queries after a short and a long while: unregistered services stay silent
            for wait in [200u64, 2500] {
                run.w.advance(wait);
                let q = query(vec![
                    (n("_t._tcp.local"), T_PTR),
                    (n("_u._udp.local"), T_PTR),
                ]);
                run.w.deliver(0, IF0, PEER0, build(&q));
            }
        } else {
            for _ in 0..3 {
                run.w.step(0);
            }
        }
        if let Some(f) = daemon_fault(&run.w, 0) {
            if !run.down || f.contains("panicked") || f.contains("park") {
                run.viols.push(viol(format!("C09|daemon-fault|{}", panic_sig(&f)), f));
            }
        }
        self.analyse(run);
    }
    fn result(&self, mut run: Run) -> CaseResult {
        let mut r = CaseResult {
            viols: std::mem::take(&mut run.viols),
            transitions: run.w.steps,
            outcome: outcome_hash(&run.w.log),
            nontrivial: run.hist.iter().any(|h| matches!(h.2, Op::Unreg1 | Op::Unreg1OtherCase | Op::Unreg2 | Op::Shutdown)),
            ..Default::default()
        };
        for (k, v) in run.counters.drain(..) {
            r.count(k, v);
        }
        r
    }
}

pub fn check(tier: &str) -> i32 {
    let mut rep = Report::new("C09", tier, "model_checking");
    let thorough = rep.thorough();
    rep.assume("'announced on an interface' is derived from the wire: an unsolicited multicast response carrying PTR and SRV answers for the service was seen there since its last unregister");
    rep.assume("SRV/TXT RDATA of a goodbye is compared by names only (a re-registration may have changed port/TXT since the last announcement)");
    let depth = if thorough { 5 } else { 4 };
    for layout in 0..3 {
        let scn = Scn { layout, shape: 0, loopback: false };
        rep.run_bfs(&scn, depth, Duration::from_secs(if thorough { 2400 } else { 25 }));
        let nm = scn.name();
        rep.require(&nm, "unregister_replies_checked");
        rep.require(&nm, "goodbyes_expected");
    }
    // own multicasts heard back (dual-stack layout)
    {
        let scn = Scn { layout: 1, shape: 0, loopback: true };
        rep.run_bfs(&scn, depth, Duration::from_secs(if thorough { 2400 } else { 25 }));
        let nm = scn.name();
        rep.require(&nm, "unregister_replies_checked");
        rep.require(&nm, "goodbyes_expected");
    }
    // other instance-name shapes (one layout, one level less deep)
    for shape in 1..SHAPES.len() {
        let scn = Scn { layout: 0, shape, loopback: false };
        rep.run_bfs(&scn, depth - 1, Duration::from_secs(if thorough { 1200 } else { 25 }));
        let nm = scn.name();
        rep.require(&nm, "unregister_replies_checked");
        rep.require(&nm, "goodbyes_expected");
    }
    rep.finish()
}
