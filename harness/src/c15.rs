//! C15 — no API argument and no packet can crash a caller or kill the daemon (Engines W + S).
use crate::fw::*;
use crate::indep::*;
use crate::scn::*;
use crate::sim::*;
use mdns_sd::{DaemonStatus, IfKind, ServiceInfo};
use std::panic::{catch_unwind, AssertUnwindSafe};
use std::time::Duration;

fn bases() -> Vec<String> {
    let mut v: Vec<String> = [
        "", "a", "_a", "é", "a.b", ".a", "a.", "a..b", "\\", "a\\", "\\a", "a\\\\b", "a\\.b", "日本", "😀", "_a-b", "-a", "a--b", "_1", " ", "a b", "%s{}", "\0", "\n", "_",
    ]
    .iter()
    .map(|s| s.to_string())
    .collect();
    for l in [14usize, 15, 16, 30, 31, 62, 63, 64, 255, 300] {
        v.push("a".repeat(l));
        v.push(format!("_{}", "a".repeat(l)));
    }
    v.push(format!("{}é", "a".repeat(62))); // 2-byte char straddling byte 63
    v.push(format!("{}日", "a".repeat(61)));
    v.push(format!("é{}", "a".repeat(61)));
    v.push(format!("{}😀{}", "a".repeat(30), "a".repeat(30)));
    v.push(format!("{}\\", "a".repeat(62)));
    v.push(format!("{}\\.{}", "a".repeat(40), "b".repeat(40)));
    v
}

fn type_suffixes() -> Vec<&'static str> {
    vec!["._tcp.local.", "._udp.local.", "._tcp.local", "._tcp.local.local.", "._TCP.LOCAL.", "", ".local.", "._sub._x._tcp.local.", "._tcp.local..", "._tcp."]
}
fn host_suffixes() -> Vec<&'static str> {
    vec![".local.", ".local", ".local.local.", ".LOCAL.", "", "..local.", ".local.."]
}

#[derive(Clone, Copy, Debug, PartialEq)]
enum Func {
    Browse,
    BrowseCache,
    StopBrowse,
    ResolveHostname,
    StopResolveHostname,
    RegisterType,
    RegisterInstance,
    RegisterHost,
    Unregister,
    Verify,
    EnableInterface,
    DisableInterface,
}
const FUNCS: [Func; 12] = [
    Func::Browse,
    Func::BrowseCache,
    Func::StopBrowse,
    Func::ResolveHostname,
    Func::StopResolveHostname,
    Func::RegisterType,
    Func::RegisterInstance,
    Func::RegisterHost,
    Func::Unregister,
    Func::Verify,
    Func::EnableInterface,
    Func::DisableInterface,
];

/// After the input: is the daemon alive and still serving?
fn still_serving(w: &mut World, res: &mut CaseResult, what: &str, detail: &str) -> bool {
    if let Some(f) = daemon_fault(w, 0) {
        res.viols.push(viol(format!("C15|daemon-thread-ended|{what}|{}", panic_sig(&f)), format!("{detail}: {f}")));
        return false;
    }
    let st = w.ds[0].h.status().ok().and_then(|rx| {
        w.poke(0);
        rx.try_recv().ok()
    });
    if !matches!(st, Some(DaemonStatus::Running)) {
        res.viols.push(viol(format!("C15|status-not-running-after-input|{what}"), format!("{detail}: {st:?}")));
        return false;
    }
    // a fresh request is still served
    let Ok(rx) = w.ds[0].h.browse("_ok._udp.local.") else {
        res.viols.push(viol(format!("C15|fresh-browse-refused-after-input|{what}"), detail.to_string()));
        return false;
    };
    let ch = w.add_browse(0, rx);
    w.poke(0);
    let mut i = Inst::simple("fine", "finehost", [10, 0, 0, 33]);
    i.ty = n("_ok._udp.local");
    i.inst = n("fine._ok._udp.local");
    w.deliver(0, IF0, PEER0, build(&response(i.all(120))));
    let ok = bevs(w, 0, ch, 0).iter().any(|(_, e)| matches!(e, BEv::Resolved(r) if r.fullname == "fine._ok._udp.local."));
    if let Some(f) = daemon_fault(w, 0) {
        res.viols.push(viol(format!("C15|daemon-thread-ended|{what}|{}", panic_sig(&f)), format!("{detail}: {f}")));
        return false;
    }
    if !ok {
        res.viols.push(viol(format!("C15|fresh-browse-not-served-after-input|{what}"), detail.to_string()));
        return false;
    }
    res.count("still_serving", 1);
    true
}

fn run_api(func: Func, arg: &str, trace: bool) -> CaseResult {
    let mut res = CaseResult { nontrivial: true, ..Default::default() };
    let mut w = World::one(lay_v4());
    w.trace = trace;
    w.ds[0].h.set_ip_check_interval(0).unwrap();
    w.ds[0].ctl.set_rng_default(0);
    w.poke(0);
    let h = w.ds[0].h.clone();
    let arg_s = arg.to_string();
    let mut registered: Option<(Name, Name)> = None;
    let call = catch_unwind(AssertUnwindSafe(|| -> Result<String, String> {
        match func {
            Func::Browse => h.browse(&arg_s).map(|_| "ok".to_string()).map_err(|e| e.to_string()),
            Func::BrowseCache => h.browse_cache(&arg_s).map(|_| "ok".into()).map_err(|e| e.to_string()),
            Func::StopBrowse => h.stop_browse(&arg_s).map(|_| "ok".into()).map_err(|e| e.to_string()),
            Func::ResolveHostname => h.resolve_hostname(&arg_s, Some(1500)).map(|_| "ok".into()).map_err(|e| e.to_string()),
            Func::StopResolveHostname => h.stop_resolve_hostname(&arg_s).map(|_| "ok".into()).map_err(|e| e.to_string()),
            Func::Unregister => h.unregister(&arg_s).map(|_| "ok".into()).map_err(|e| e.to_string()),
            Func::Verify => h.verify(arg_s.clone(), Duration::from_millis(500)).map(|_| "ok".into()).map_err(|e| e.to_string()),
            Func::EnableInterface => h.enable_interface(arg_s.as_str()).map(|_| "ok".into()).map_err(|e| e.to_string()),
            Func::DisableInterface => h.disable_interface(IfKind::Name(arg_s.clone())).map(|_| "ok".into()).map_err(|e| e.to_string()),
            Func::RegisterType | Func::RegisterInstance | Func::RegisterHost => {
                let (ty, inst, host) = match func {
                    Func::RegisterType => (arg_s.as_str(), "inst", "myhost.local."),
                    Func::RegisterInstance => ("_t._tcp.local.", arg_s.as_str(), "myhost.local."),
                    _ => ("_t._tcp.local.", "inst", arg_s.as_str()),
                };
                let info = ServiceInfo::new(ty, inst, host, "10.0.0.5", 80, &[("k", "v")][..]).map_err(|e| e.to_string())?;
                h.register(info).map(|_| "ok".into()).map_err(|e| e.to_string())
            }
        }
    }));
    res.transitions = 1;
    let shown = format!("{func:?}({:?})", truncate(arg, 90));
    let what = format!("{func:?}");
    match call {
        Err(_) => {
            let p = take_panic().unwrap_or_default();
            res.viols.push(viol(format!("C15|caller-panics|{what}|{}", panic_sig(&p)), format!("{shown}: {p}")));
            res.outcome = 1;
            return res;
        }
        Ok(r) => {
            res.count(if r.is_ok() { "accepted" } else { "refused" }, 1);
            res.outcome = 2 + r.is_ok() as u128;
            if r.is_ok() && matches!(func, Func::RegisterType | Func::RegisterInstance | Func::RegisterHost) {
                // names the registration uses on the wire (independently unescaped)
                let (ty, inst, host) = match func {
                    Func::RegisterType => (arg, "inst", "myhost.local."),
                    Func::RegisterInstance => ("_t._tcp.local.", arg, "myhost.local."),
                    _ => ("_t._tcp.local.", "inst", arg),
                };
                let mut full: Name = vec![inst.as_bytes().to_vec()];
                full.extend(crate::c02::labels_of(ty.rsplit_once("._sub.").map_or(ty, |x| x.1)));
                registered = Some((full, crate::c02::labels_of(host)));
            }
        }
    }
    w.poke(0);
    // deferred work: probing, announcing, queries
    w.advance(300);
    if let Some((inst, host)) = &registered {
        // a conflict while probing, so that the rename paths run on this name too
        if inst.iter().all(|l| l.len() < 64) && host.iter().all(|l| l.len() < 64) && !inst.is_empty() && !host.is_empty() {
            let m = response(vec![srv(inst, &n("other.local"), 9, 120), a(host, [10, 0, 0, 200], 120)]);
            w.deliver(0, IF0, PEER0, build(&m));
        }
    }
    w.advance(3000);
    still_serving(&mut w, &mut res, &what, &shown);
    res.states = final_states(&w);
    res
}

fn run_numbers(i: u64, trace: bool) -> CaseResult {
    let mut res = CaseResult { nontrivial: true, transitions: 1, ..Default::default() };
    let mut w = World::one(lay_v4());
    w.trace = trace;
    w.poke(0);
    let h = w.ds[0].h.clone();
    let label = format!("numbers#{i}");
    let r = catch_unwind(AssertUnwindSafe(|| match i {
        0 => h.set_service_name_len_max(0).is_ok(),
        1 => h.set_service_name_len_max(255).is_ok(),
        2 => h.set_ip_check_interval(u32::MAX).is_ok(),
        3 => h.set_ip_check_interval(1).is_ok(),
        4 => h.verify("x._t._tcp.local.".into(), Duration::MAX).is_ok(),
        5 => h.verify("x._t._tcp.local.".into(), Duration::ZERO).is_ok(),
        6 => h.resolve_hostname("h.local.", Some(u64::MAX)).is_ok(),
        7 => h.resolve_hostname("h.local.", Some(0)).is_ok(),
        8 => {
            let big: Vec<(String, String)> = (0..300).map(|k| (format!("key{k}"), "v".repeat(200))).collect();
            ServiceInfo::new("_t._tcp.local.", "big", "bighost.local.", "10.0.0.5", 0, &big[..]).map(|s| h.register(s).is_ok()).unwrap_or(false)
        }
        9 => ServiceInfo::new("_t._tcp.local.", "p", "ph.local.", "10.0.0.5", 65535, &[("k", "v")][..]).map(|s| h.register(s).is_ok()).unwrap_or(false),
        10 => ServiceInfo::new("_t._tcp.local.", "p", "ph.local.", "not-an-ip", 1, &[("k", "v")][..]).map(|s| h.register(s).is_ok()).unwrap_or(false),
        11 => {
            // verify with a huge timeout on an instance that is in the cache
            h.verify("fine._ok._udp.local.".into(), Duration::from_secs(u64::MAX / 2)).is_ok()
        }
        13..=24 => {
            // TXT property sizes around the 255-byte limit of one string: key + '=' + value of
            // 254 / 255 / 256 bytes (text and non-UTF-8 values), and a key alone of 255 / 256 bytes
            let k = i - 13;
            let total = [254usize, 255, 256][(k % 3) as usize];
            let prop: mdns_sd::TxtProperty = match k / 3 {
                0 => ("key", "v".repeat(total - 4).as_str()).into(),
                1 => mdns_sd::TxtProperty::from(("key", vec![0xFFu8; total - 4].as_slice())),
                2 => mdns_sd::TxtProperty::from(("k".repeat(total - 1).as_str(), "")),
                _ => mdns_sd::TxtProperty::from("k".repeat(total).as_str()),
            };
            ServiceInfo::new("_t._tcp.local.", "txt", "txthost.local.", "10.0.0.5", 1, vec![prop]).map(|s| h.register(s).is_ok()).unwrap_or(false)
        }
        _ => h.set_service_name_len_max(30).is_ok(),
    }));
    match r {
        Err(_) => {
            let p = take_panic().unwrap_or_default();
            res.viols.push(viol(format!("C15|caller-panics|numbers|{}", panic_sig(&p)), format!("{label}: {p}")));
            return res;
        }
        Ok(ok) => res.outcome = ok as u128,
    }
    w.poke(0);
    // give a cached instance to the verify cases
    let mut inst = Inst::simple("fine", "finehost", [10, 0, 0, 33]);
    inst.ty = n("_ok._udp.local");
    inst.inst = n("fine._ok._udp.local");
    if i == 11 {
        if let Ok(rx) = w.ds[0].h.browse("_ok._udp.local.") {
            w.add_browse(0, rx);
            w.poke(0);
            w.deliver(0, IF0, PEER0, build(&response(inst.all(120))));
            let _ = w.ds[0].h.verify("fine._ok._udp.local.".into(), Duration::from_secs(u64::MAX / 2));
            w.poke(0);
        }
    }
    w.advance(6000);
    still_serving(&mut w, &mut res, "numbers", &label);
    res.states = final_states(&w);
    res
}

/// Hostile names in every name position of a response, to a daemon that browses, resolves and
/// has a registration.
fn hostile_labels() -> Vec<(&'static str, Vec<Vec<u8>>)> {
    let l63 = vec![b'z'; 63];
    vec![
        ("plain", vec![b"ok".to_vec()]),
        ("dot-inside", vec![b"a.b".to_vec()]),
        ("ends-with-backslash", vec![b"abc\\".to_vec()]),
        ("63-bytes", vec![l63.clone()]),
        ("63-ending-backslash-then-63", vec![{ let mut x = vec![b'y'; 62]; x.push(b'\\'); x }, l63.clone()]),
        ("backslash-then-long", vec![b"q\\".to_vec(), l63.clone()]),
        ("only-backslash", vec![b"\\".to_vec()]),
        ("double-backslash", vec![b"a\\\\".to_vec()]),
        ("empty-looking", vec![b".".to_vec()]),
        ("many-dots", vec![b"....".to_vec()]),
        ("utf8", "日本語".as_bytes().chunks(9).map(|c| c.to_vec()).collect()),
        ("space-paren", vec![b"x (2)".to_vec()]),
        ("long-with-suffix", vec![{ let mut x = vec![b'n'; 59]; x.extend(b" (9)"); x }]),
    ]
}

fn run_packet(shape: usize, pos: u64, trace: bool) -> CaseResult {
    let mut res = CaseResult { nontrivial: true, transitions: 1, ..Default::default() };
    let mut w = World::one(lay_v4());
    w.trace = trace;
    w.ds[0].h.set_ip_check_interval(0).unwrap();
    w.ds[0].ctl.set_rng_default(0);
    w.poke(0);
    let rx = w.ds[0].h.browse("_t._tcp.local.").unwrap();
    w.add_browse(0, rx);
    w.poke(0);
    let rx = w.ds[0].h.resolve_hostname("h.local.", None).unwrap();
    w.add_host(0, rx);
    w.poke(0);
    w.ds[0].h.register(svc("_t._tcp.local.", "mine", "myhost.local.", "10.0.0.5", 80, &[])).unwrap();
    w.poke(0);
    w.advance(100);
    let (tag, labels) = hostile_labels().swap_remove(shape);
    let ty = n("_t._tcp.local");
    let mut weird: Name = labels.clone();
    let mut weird_inst = weird.clone();
    weird_inst.extend(ty.clone());
    weird.push(b"local".to_vec());
    let good = Inst::simple("good", "h", [10, 0, 0, 9]);
    let recs: Vec<Record> = match pos {
        0 => vec![ptr(&ty, &weird_inst, 120)],                                         // PTR target
        1 => vec![ptr(&ty, &weird_inst, 120), srv(&weird_inst, &n("h.local"), 80, 120), txt(&weird_inst, &[0], 120), a(&n("h.local"), [10, 0, 0, 9], 120)], // whole instance
        2 => vec![good.ptr(120), srv(&good.inst, &weird, 80, 120)],                     // SRV target
        3 => vec![a(&weird, [10, 0, 0, 9], 120)],                                       // A owner
        4 => vec![Record { name: good.inst.clone(), rtype: T_NSEC, class: C_IN, flush: true, ttl: 120, rd: RD::Nsec { next: weird.clone(), rest: vec![0, 1, 0x40] } }],
        5 => vec![ptr(&weird_inst, &good.inst, 120)],                                   // PTR owner
        6 => vec![srv(&n("mine._t._tcp.local"), &weird, 9, 120)],                       // conflict with our probing name
        _ => vec![a(&n("myhost.local"), [10, 0, 0, 200], 120), srv(&weird_inst, &n("myhost.local"), 1, 120)],
    };
    w.deliver(0, IF0, PEER0, build(&response(recs.clone())));
    // as a query too (names in questions and known answers)
    let mut q = query(vec![(weird_inst.clone(), T_ANY), (weird.clone(), T_A)]);
    q.authorities = vec![srv(&weird_inst, &weird, 1, 120)];
    w.deliver(0, IF0, PEER0, build(&q));
    w.advance(4000);
    let _ = w.ds[0].h.verify(dotted(&weird_inst), Duration::from_millis(500));
    w.poke(0);
    w.advance(2000);
    still_serving(&mut w, &mut res, &format!("packet|{tag}"), &format!("shape {tag} position {pos}: {:?}", recs.iter().map(|r| truncate(&r.summary(), 120)).collect::<Vec<_>>()));
    res.outcome = outcome_hash(&w.log);
    res.states = final_states(&w);
    res
}

/// Extreme numbers in packets: TTLs of known answers and of received records, SRV numbers.
fn run_packet_numbers(kind: u64, ttl_ix: u64, trace: bool) -> CaseResult {
    const EXT: [u32; 7] = [0, 1, 2, 0x7FFF_FFFF, 0x8000_0000, 0xFFFF_FFFE, 0xFFFF_FFFF];
    let ttl = EXT[ttl_ix as usize];
    let mut res = CaseResult { nontrivial: true, transitions: 1, ..Default::default() };
    let mut w = World::one(lay_v4());
    w.trace = trace;
    w.ds[0].h.set_ip_check_interval(0).unwrap();
    w.ds[0].ctl.set_rng_default(0);
    w.poke(0);
    let rx = w.ds[0].h.browse("_t._tcp.local.").unwrap();
    w.add_browse(0, rx);
    w.poke(0);
    let rx = w.ds[0].h.resolve_hostname("h.local.", None).unwrap();
    w.add_host(0, rx);
    w.poke(0);
    w.ds[0].h.register(svc("_t._tcp.local.", "mine", "myhost.local.", "10.0.0.5", 80, &[("k", "v")])).unwrap();
    w.poke(0);
    w.advance(3000); // announced
    let ty = n("_t._tcp.local");
    let mine = n("mine._t._tcp.local");
    let good = Inst::simple("good", "h", [10, 0, 0, 9]);
    let what;
    match kind {
        0 => {
            // a query whose known answers are exactly the records we would answer with, TTL extreme
            what = "known-answers-with-extreme-ttl";
            for (qn, qt) in [(ty.clone(), T_PTR), (mine.clone(), T_ANY), (n("myhost.local"), T_A)] {
                let mut q = query(vec![(qn, qt)]);
                let mut kas = vec![ptr(&ty, &mine, ttl), srv(&mine, &n("myhost.local"), 80, ttl), txt(&mine, &txt_rdata(&[(b"k", Some(b"v"))]), ttl), a(&n("myhost.local"), [10, 0, 0, 5], ttl)];
                for flush in [false, true] {
                    for k in kas.iter_mut() {
                        k.flush = flush && k.rtype != T_PTR;
                    }
                    q.answers = kas.clone();
                    w.deliver(0, IF0, PEER0, build(&q));
                    let mut legacy = q.clone();
                    legacy.id = 7;
                    w.deliver(0, IF0, "10.0.0.9:40000", build(&legacy));
                }
            }
        }
        1 => {
            what = "received-records-with-extreme-ttl";
            let mut recs = good.all(ttl);
            recs.push(aaaa(&n("h.local"), "fd00::9".parse().unwrap(), ttl));
            recs.push(Record { name: good.inst.clone(), rtype: T_NSEC, class: C_IN, flush: true, ttl, rd: RD::Nsec { next: good.inst.clone(), rest: vec![0, 1, 0x40] } });
            w.deliver(0, IF0, PEER0, build(&response(recs.clone())));
            w.advance(1500);
            w.deliver(0, IF0, PEER0, build(&response(recs)));
            let _ = w.ds[0].h.verify(good.fullname(), Duration::from_millis(500));
            w.poke(0);
        }
        2 => {
            what = "probe-authorities-and-conflicts-with-extreme-ttl";
            // a second registration is probing while these arrive
            w.ds[0].h.register(svc("_t._tcp.local.", "second", "otherhost.local.", "10.0.0.6", 81, &[])).unwrap();
            w.poke(0);
            w.advance(100);
            let sec = n("second._t._tcp.local");
            let mut q = query(vec![(sec.clone(), T_ANY), (n("otherhost.local"), T_ANY)]);
            q.authorities = vec![srv(&sec, &n("zzz.local"), 9, ttl), a(&n("otherhost.local"), [10, 0, 0, 200], ttl)];
            w.deliver(0, IF0, PEER0, build(&q));
            w.deliver(0, IF0, PEER0, build(&response(vec![srv(&sec, &n("zzz.local"), 9, ttl), a(&n("otherhost.local"), [10, 0, 0, 201], ttl)])));
        }
        _ => {
            what = "srv-numbers-and-goodbyes";
            let mut s1 = good.srv(ttl);
            if let RD::Srv { priority, weight, port, .. } = &mut s1.rd {
                *priority = 0xFFFF;
                *weight = 0xFFFF;
                *port = if ttl_ix % 2 == 0 { 0 } else { 0xFFFF };
            }
            w.deliver(0, IF0, PEER0, build(&response(vec![good.ptr(120), s1, good.txt(120), a(&n("h.local"), [10, 0, 0, 9], ttl)])));
            w.deliver(0, IF0, PEER0, build(&response(good.all(0))));
        }
    }
    w.advance(4000);
    still_serving(&mut w, &mut res, &format!("packet-numbers|{what}"), &format!("{what}, ttl {ttl:#x}"));
    res.outcome = outcome_hash(&w.log);
    res.states = final_states(&w);
    res
}

/// A registration is inside its probing window when a peer's probe for the same names arrives whose
/// authority section holds any subset of {our SRV, our TXT, another SRV, another TXT} for the
/// instance and of {our address, our second address, another address} for the host - fewer records
/// than we propose, the same, more, equal or different.  x = [instance subset mask, host subset mask,
/// probe step the packet follows].
fn run_probe_subsets(x: &[u64], trace: bool) -> CaseResult {
    let mut res = CaseResult { nontrivial: true, transitions: 1, ..Default::default() };
    let mut w = World::one(lay_v4());
    w.trace = trace;
    w.ds[0].h.set_ip_check_interval(0).unwrap();
    w.ds[0].ctl.set_rng_default(0);
    w.poke(0);
    w.ds[0].h.register(svc("_t._tcp.local.", "mine", "myhost.local.", "10.0.0.5,10.0.0.6", 80, &[("k", "v")])).unwrap();
    w.poke(0);
    w.advance([100u64, 350, 600][x[2] as usize]);
    let mine = n("mine._t._tcp.local");
    let host = n("myhost.local");
    let inst_menu = [srv(&mine, &host, 80, 120), txt(&mine, &txt_rdata(&[(b"k", Some(b"v"))]), 4500), srv(&mine, &n("zzz.local"), 9999, 120), txt(&mine, &txt_rdata(&[(b"z", Some(b"z"))]), 4500)];
    let host_menu = [a(&host, [10, 0, 0, 5], 120), a(&host, [10, 0, 0, 6], 120), a(&host, [10, 0, 0, 200], 120)];
    let mut q = query(vec![(mine.clone(), T_ANY), (host.clone(), T_ANY)]);
    for (k, r) in inst_menu.iter().enumerate() {
        if x[0] & (1 << k) != 0 {
            let mut r = r.clone();
            r.flush = false;
            q.authorities.push(r);
        }
    }
    for (k, r) in host_menu.iter().enumerate() {
        if x[1] & (1 << k) != 0 {
            let mut r = r.clone();
            r.flush = false;
            q.authorities.push(r);
        }
    }
    w.deliver(0, IF0, PEER0, build(&q));
    w.advance(6000);
    still_serving(&mut w, &mut res, "probe-with-a-subset-of-our-records", &format!("instance authorities mask {:#06b}, host authorities mask {:#05b}, after probe {}", x[0], x[1], x[2] + 1));
    res.outcome = outcome_hash(&w.log);
    res.states = final_states(&w);
    res
}

/// Every prefix of packets the crate itself encoded (compressed names, probes with authority
/// records, announcements, answers) and of the hand-built corpus, delivered to a daemon that browses,
/// resolves and has a registration: it must survive all of them.
fn run_truncations(trace: bool) -> CaseResult {
    let mut res = CaseResult { nontrivial: true, ..Default::default() };
    // packets encoded by the crate: what a registering daemon sends while probing and announcing,
    // and its answers to a few questions
    let mut src = World::one(lay_dual());
    src.ds[0].h.set_ip_check_interval(0).unwrap();
    src.ds[0].h.register(svc("_s._sub._t._tcp.local.", "Sender One", "sender-host.local.", "10.0.0.5,fd00::5", 80, &[("k", "v"), ("flag", "")])).unwrap();
    src.poke(0);
    src.advance(2500);
    for q in [vec![(n("_t._tcp.local"), T_PTR)], vec![(n("sender one._t._tcp.local"), T_ANY), (n("sender-host.local"), T_ANY)], vec![(n("_services._dns-sd._udp.local"), T_PTR)]] {
        src.deliver(0, IF0, PEER0, build(&query(q)));
    }
    let mut packets: Vec<Vec<u8>> = outs(&src, 0, 0).into_iter().map(|(_, o)| o.data).collect();
    packets.sort();
    packets.dedup();
    packets.extend(crate::c01::corpus());
    let mut w = World::one(lay_dual());
    w.trace = trace;
    w.ds[0].h.set_ip_check_interval(0).unwrap();
    w.poke(0);
    let rx = w.ds[0].h.browse("_t._tcp.local.").unwrap();
    w.add_browse(0, rx);
    let rx = w.ds[0].h.resolve_hostname("sender-host.local.", None).unwrap();
    w.add_host(0, rx);
    w.ds[0].h.register(svc("_t._tcp.local.", "mine", "myhost.local.", "10.0.0.6", 81, &[])).unwrap();
    w.poke(0);
    w.advance(100);
    'all: for p in &packets {
        for cut in 0..=p.len() {
            w.deliver(0, IF0, PEER0, p[..cut].to_vec());
            res.transitions += 1;
            if let Some(f) = daemon_fault(&w, 0) {
                res.viols.push(viol(format!("C15|daemon-thread-ended|truncated-packet|{}", panic_sig(&f)), format!("packet of {} bytes cut to {cut}: {f}; data {}", p.len(), truncate(&hex(&p[..cut]), 200))));
                break 'all;
            }
        }
    }
    res.count("truncated_packets_delivered", res.transitions);
    w.advance(4000);
    still_serving(&mut w, &mut res, "truncated-packets", "all prefixes of crate-encoded and corpus packets");
    res.outcome = outcome_hash(&w.log);
    res.states = final_states(&w);
    res
}

pub fn check(tier: &str) -> i32 {
    let mut rep = Report::new("C15", tier, "exploration");
    let thorough = rep.thorough();
    rep.assume("'still serving' = the daemon thread has not ended, status() is Running, and a fresh browse resolves an announcement delivered afterwards");
    let b = bases();
    // argument strings per function family
    let mut type_args: Vec<String> = vec![];
    for base in &b {
        for suf in type_suffixes() {
            type_args.push(format!("{base}{suf}"));
        }
    }
    let mut host_args: Vec<String> = vec![];
    for base in &b {
        for suf in host_suffixes() {
            host_args.push(format!("{base}{suf}"));
        }
    }
    let mut full_args: Vec<String> = vec![];
    for base in b.iter().step_by(if thorough { 1 } else { 2 }) {
        for suf in ["._t._tcp.local.", "._t._tcp.local", "", ".local."] {
            full_args.push(format!("{base}{suf}"));
        }
    }
    let mut cases: Vec<(Func, String)> = vec![];
    for f in FUNCS {
        let args: &Vec<String> = match f {
            Func::Browse | Func::BrowseCache | Func::StopBrowse | Func::RegisterType => &type_args,
            Func::ResolveHostname | Func::StopResolveHostname | Func::RegisterHost => &host_args,
            Func::Unregister | Func::Verify => &full_args,
            Func::RegisterInstance | Func::EnableInterface | Func::DisableInterface => &b,
        };
        for a in args {
            cases.push((f, a.clone()));
        }
    }
    let nc = cases.len() as u64;
    let c2 = cases.clone();
    let api = FnPart {
        name: "api-strings".into(),
        rule: format!("{} base strings (empty, 1, 14-16, 30-31, 62-64, 255, 300 bytes; multi-byte UTF-8 at first/middle/last position and straddling byte 63; dots and backslashes at start/end/doubled; control characters) x domain suffix variants, given to every public function that takes a name ({} call sites); each followed by 0.3 s, a conflict for registrations, 3 s, and the still-serving test", bases().len(), FUNCS.len()),
        n: nc,
        describe: Box::new(move |i| format!("{:?}({:?})", c2[i as usize].0, truncate(&c2[i as usize].1, 100))),
        run: Box::new(move |i, tr| run_api(cases[i as usize].0, &cases[i as usize].1, tr)),
    };
    rep.run_part(&api, Duration::from_secs(if thorough { 1800 } else { 50 }));
    let nums = FnPart {
        name: "api-numbers".into(),
        rule: "extreme numbers for every numeric argument (length limit 0/255, interval 1/u32::MAX, verify and resolver timeouts 0/MAX, ports 0/65535, 60 kB of TXT data, TXT properties of 254 / 255 / 256 bytes (text, non-UTF-8, empty value, key only), bad address string)".into(),
        n: 25,
        describe: Box::new(|i| format!("numbers#{i}")),
        run: Box::new(|i, tr| run_numbers(i, tr)),
    };
    rep.run_part(&nums, Duration::from_secs(120));
    let ns = hostile_labels().len() as u64;
    let pk = FnPart {
        name: "hostile-names-in-packets".into(),
        rule: "13 hostile label shapes (dot inside, trailing backslash, 63 bytes, 63-byte label ending in a backslash followed by another 63-byte label, ...) in 8 name positions (PTR target / whole instance / SRV target / A owner / NSEC next / PTR owner / conflict with a probing name / mixed), as response and as query, to a daemon with a browse, a resolver and a registration; then verify on that name; then the still-serving test".into(),
        n: ns * 8,
        describe: Box::new(move |i| format!("shape {} position {}", hostile_labels()[(i % ns) as usize].0, i / ns)),
        run: Box::new(move |i, tr| run_packet((i % ns) as usize, i / ns, tr)),
    };
    rep.run_part(&pk, Duration::from_secs(300));
    rep.require("api-strings", "accepted");
    rep.require("api-strings", "refused");
    rep.require("api-strings", "still_serving");
    rep.require("hostile-names-in-packets", "still_serving");
    let ndims = [4u64, 7];
    let pdims = [16u64, 8, 3];
    let subs = FnPart {
        name: "simultaneous-probes-with-subsets-of-our-records".into(),
        rule: "a registration (SRV, TXT, two addresses) is probing; after its 1st / 2nd / 3rd probe a peer's probe for the same names arrives with every subset of {our SRV, our TXT, another SRV, another TXT} x every subset of {our address, our second address, another address} as authorities; the daemon thread must not end and the daemon must still serve".into(),
        n: product(&pdims),
        describe: Box::new(move |i| format!("{:?}", unrank(i, &pdims))),
        run: Box::new(move |i, tr| run_probe_subsets(&unrank(i, &pdims), tr)),
    };
    rep.run_part(&subs, Duration::from_secs(120));
    let nums = FnPart {
        name: "hostile-numbers-in-packets".into(),
        rule: "TTL in {0, 1, 2, 2^31-1, 2^31, 2^32-2, 2^32-1} on: known answers equal to the records the daemon would answer with (multicast and legacy queries, with and without cache-flush bit), the records of a browsed instance and of a searched host (received twice, then verify), probe authorities and conflicting responses while a registration is probing, SRV priority/weight/port extremes followed by a goodbye; then 4 s and the still-serving test".into(),
        n: product(&ndims),
        describe: Box::new(move |i| { let x = unrank(i, &ndims); format!("kind {} ttl index {}", x[0], x[1]) }),
        run: Box::new(move |i, tr| { let x = unrank(i, &ndims); run_packet_numbers(x[0], x[1], tr) }),
    };
    rep.run_part(&nums, Duration::from_secs(120));
    let tr = FnPart {
        name: "truncated-packets".into(),
        rule: "every prefix (each length from 0 to all) of every packet a registering daemon of this crate sends while probing, announcing and answering (compressed names), and of the hand-built corpus, delivered to a daemon with a browse, a resolver and a registration; then the still-serving test".into(),
        n: 1,
        describe: Box::new(|_| "all prefixes".to_string()),
        run: Box::new(|_, tr| run_truncations(tr)),
    };
    rep.run_part(&tr, Duration::from_secs(120));
    rep.require("truncated-packets", "truncated_packets_delivered");
    // conflict renames that have to shorten a label holding a multi-byte character
    let cut_labels: Vec<String> = crate::c08::multibyte_labels("", "").into_iter().collect::<std::collections::BTreeSet<_>>().into_iter().collect();
    let ncut = cut_labels.len() as u64;
    let cl = cut_labels.clone();
    let cut = FnPart {
        name: "rename-cuts".into(),
        rule: format!("{} first labels of 56..63 bytes with one 2-, 3- or 4-byte character at every byte offset from 48 on, registered as instance name and as host name; a conflict while probing forces the rename that shortens the label; then 3 s and the still-serving test", cut_labels.len()),
        n: ncut * 2,
        describe: Box::new(move |i| format!("{} {:?}", if i % 2 == 0 { "RegisterInstance" } else { "RegisterHost" }, cl[(i / 2) as usize])),
        run: Box::new(move |i, tr| {
            let l = &cut_labels[(i / 2) as usize];
            if i % 2 == 0 { run_api(Func::RegisterInstance, l, tr) } else { run_api(Func::RegisterHost, &format!("{l}.local."), tr) }
        }),
    };
    rep.run_part(&cut, Duration::from_secs(if thorough { 1200 } else { 40 }));
    rep.require("rename-cuts", "accepted");
    rep.finish()
}
