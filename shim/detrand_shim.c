#define _GNU_SOURCE
#include <stddef.h>
#include <string.h>
#include <stdlib.h>
#include <sys/types.h>
ssize_t getrandom(void *buf, size_t buflen, unsigned int flags) {
    const char *s = getenv("VERIF_HASH_SEED");
    unsigned char v = s ? (unsigned char)atoi(s) : 0x5a;
    memset(buf, v, buflen);
    return (ssize_t)buflen;
}
